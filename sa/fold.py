"""
Finite-domain folding of *lifted* pure fragments.

A rule lifts an expression (a guard, a filter, a conversion branch) or a small statement block out
of the repository's AST and evaluates it here over an explicitly enumerated domain that the rule
supplies.  The fragment is never executed by Python: this module interprets the AST over the closed
language listed in DESIGN.md section 1.  Anything outside it raises `Unfoldable`, which a rule turns
into ANALYSIS-ERROR (never a verdict).

Bindings: `env` maps *source text* of names / attribute chains / arbitrary sub-expressions
(`ast.unparse` form) to domain values, e.g. {"avg_cov": 1.0, "profile.min_avg_coverage": 2.0,
"self.gene[read.pos - 1] == 'N'": False}.  A bound sub-expression is looked up before it is
interpreted structurally, so opaque parts of the program become free variables of the table.
"""

import ast
import operator
from typing import Any, Callable, Dict, List, Optional


class Unfoldable(Exception):
    pass


class Raised(Exception):
    """The fragment raises (kind = exception class name as written in the source / builtin)."""

    def __init__(self, kind, payload=None):
        super().__init__(kind)
        self.kind = kind
        self.payload = payload
        self.where = None  # innermost statement of /repo at which the fragment raises (line, source text)

    def __str__(self):
        return self.kind if self.where is None else f"{self.kind} (at line {self.where[0]}: {self.where[1]})"


class _Return(Exception):
    def __init__(self, value):
        self.value = value


class _Continue(Exception):
    pass


class _Break(Exception):
    pass


_BIN = {
    ast.Add: operator.add,
    ast.Sub: operator.sub,
    ast.Mult: operator.mul,
    ast.Div: operator.truediv,
    ast.FloorDiv: operator.floordiv,
    ast.Mod: operator.mod,
    ast.Pow: operator.pow,
    ast.BitOr: operator.or_,
    ast.BitAnd: operator.and_,
    ast.BitXor: operator.xor,
}
_IBIN = {
    ast.Add: operator.iadd,
    ast.Sub: operator.isub,
    ast.Mult: operator.imul,
    ast.Div: operator.itruediv,
    ast.FloorDiv: operator.ifloordiv,
    ast.Mod: operator.imod,
    ast.Pow: operator.ipow,
    ast.BitOr: operator.ior,
    ast.BitAnd: operator.iand,
    ast.BitXor: operator.ixor,
}
_CMP = {
    ast.Eq: operator.eq,
    ast.NotEq: operator.ne,
    ast.Lt: operator.lt,
    ast.LtE: operator.le,
    ast.Gt: operator.gt,
    ast.GtE: operator.ge,
    ast.Is: operator.is_,
    ast.IsNot: operator.is_not,
    ast.In: lambda a, b: a in b,
    ast.NotIn: lambda a, b: a not in b,
}

def _obj_setattr(o, k, v):
    if not isinstance(o, Obj) or not isinstance(k, str):
        raise TypeError("setattr outside the domain objects")
    o.__dict__[k] = v


def _obj_getattr(o, k, *d):
    if isinstance(o, Obj) and isinstance(k, str):
        if k in o.__dict__:
            return o.__dict__[k]
        if d:
            return d[0]
        raise AttributeError(k)
    raise TypeError("getattr outside the domain objects")


def _obj_hasattr(o, k):
    if isinstance(o, Obj) and isinstance(k, str):
        return k in o.__dict__
    raise TypeError("hasattr outside the domain objects")


_BUILTINS: Dict[str, Callable] = {
    "setattr": _obj_setattr,
    "getattr": _obj_getattr,
    "hasattr": _obj_hasattr,
    "len": len,
    "min": min,
    "max": max,
    "abs": abs,
    "int": int,
    "float": float,
    "str": str,
    "bool": bool,
    "round": round,
    "sorted": sorted,
    "sum": sum,
    "any": any,
    "all": all,
    "range": range,
    "type": type,
    "isinstance": isinstance,
    "list": list,
    "tuple": tuple,
    "set": set,
    "dict": dict,
    "enumerate": enumerate,
    "zip": zip,
    "hasattr": hasattr,
    "next": next,
    "filter": filter,
    "map": map,
    "iter": iter,
    "reversed": reversed,
    "divmod": divmod,
    "ord": ord,
    "chr": chr,
    "frozenset": frozenset,
}
import collections as _collections  # noqa: E402

_STD_CONTAINERS = {"collections.defaultdict": _collections.defaultdict, "defaultdict": _collections.defaultdict,
                   "collections.Counter": _collections.Counter, "Counter": _collections.Counter,
                   "collections.OrderedDict": _collections.OrderedDict, "OrderedDict": _collections.OrderedDict}
import re as _re  # noqa: E402

_STD_RE = {"re." + k: getattr(_re, k) for k in ("sub", "match", "search", "fullmatch", "split", "findall", "escape")}
import bisect as _bisect  # noqa: E402

_STD_PURE = {}
for _k in ("bisect", "bisect_left", "bisect_right"):
    _STD_PURE["bisect." + _k] = getattr(_bisect, _k)
    _STD_PURE[_k] = getattr(_bisect, _k)      # `from bisect import bisect_right`
_STD_PURE["str.maketrans"] = str.maketrans
_STD_PURE["dict.fromkeys"] = dict.fromkeys
_TYPES = {"bool": bool, "int": int, "float": float, "str": str, "list": list, "tuple": tuple,
          "dict": dict, "set": set, "slice": slice}
_STR_METHODS = {
    "lower", "upper", "casefold", "strip", "lstrip", "rstrip", "startswith", "endswith", "split",
    "replace", "isdigit", "join", "title", "translate", "partition", "rpartition", "rsplit", "count", "index", "removeprefix", "removesuffix", "isalnum", "islower", "isspace", "center", "ljust", "rjust", "expandtabs", "swapcase", "isnumeric", "isdecimal", "capitalize", "format", "splitlines", "find", "rfind", "zfill", "isalpha", "isupper",
}
_CONTAINER_METHODS = {"get", "items", "keys", "values", "count", "index", "copy", "append", "extend", "add", "update",
                      "setdefault", "pop", "clear", "remove", "discard", "insert", "sort", "reverse", "popitem", "union",
                      "intersection", "difference", "issubset", "issuperset", "most_common", "elements"}  # mutation of containers *local to the lifted fragment*
_BUILTIN_EXC = {"ValueError": ValueError, "TypeError": TypeError, "KeyError": KeyError,
                "IndexError": IndexError, "ZeroDivisionError": ZeroDivisionError,
                "AttributeError": AttributeError, "Exception": Exception}


class Obj:
    """A record with attributes (used for `self`, `profile`, tuple-like reads)."""

    def __init__(self, **kw):
        self.__dict__.update(kw)

    def __repr__(self):
        return "Obj(" + ", ".join(f"{k}={v!r}" for k, v in self.__dict__.items()) + ")"


class Rec(Obj):
    """A record with value equality (stands for a dataclass of /repo: two records with equal fields are equal)."""

    def _key(self):
        return tuple(sorted((k, repr(v)) for k, v in self.__dict__.items() if not callable(v)))

    def __eq__(self, other):
        return isinstance(other, Rec) and self._key() == other._key()

    def __hash__(self):
        return hash(self._key())


class Evaluator:
    def __init__(self, env: Optional[Dict[str, Any]] = None, funcs: Optional[Dict[str, Callable]] = None,
                 consts: Optional[Dict[str, Any]] = None, defs: Optional[Dict[str, ast.AST]] = None,
                 hook: Optional[Callable] = None):
        self.hook = hook  # hook(node, evaluator) -> value | NotImplemented ; consulted before interpretation
        self.yields: List[Any] = []
        self.defs = dict(defs or {})  # single-assignment locals: name -> defining expression
        self._depth = 0
        self.bound: Dict[str, Any] = dict(env or {})  # source text -> value
        self.locals: Dict[str, Any] = {}
        self.funcs = dict(funcs or {})  # dotted callee text -> python callable over domain values
        self.consts = dict(consts or {})  # module-level numeric constants by name

    def _home_of(self, node):
        """The Lifted context of the function `node` belongs to (sibling helpers of its module, sibling methods of its class),
        derived from the loader's annotations when the fragment was not started through Lifted."""
        home = getattr(self, "home", None)
        if home is not None:
            return home
        fn = getattr(node, "_func", None)
        if fn is None:
            return None
        while getattr(fn, "_func", None) is not None:   # a nested def / lambda: go out to the module- or class-level function
            fn = fn._func
        cache = self.__dict__.setdefault("_homes", {})
        if id(fn) not in cache:
            try:
                h = Lifted(fn, self.funcs, self.consts, dict(self.bound), self.hook)
            except (Unfoldable, Raised):
                cache[id(fn)] = None
                return None
            h.funcs = self.funcs
            if h.class_methods and h.pos:
                me = h.pos[0]
                h.self_obj = self.locals.get(me, self.bound.get(me))
            cache[id(fn)] = h
        return cache[id(fn)]

    def _emit(self, value):
        """A `yield` of the fragment: collected, or handed to the consumer at once when the fragment runs as a lazy generator."""
        if getattr(self, "on_yield", None) is not None:
            self.on_yield(value)
        else:
            self.yields.append(value)

    # -- expressions ----------------------------------------------------------------------
    def ev(self, node):
        key = None
        if not isinstance(node, (ast.Constant,)):
            try:
                key = ast.unparse(node)
            except Exception:
                key = None
        if key is not None and key in self.bound and not (isinstance(node, ast.Name) and node.id in self.locals):
            return self.bound[key]
        if self.hook is not None:
            v = self.hook(node, self)
            if v is not NotImplemented:
                return v
        m = getattr(self, "_" + type(node).__name__, None)
        if m is None:
            raise Unfoldable(f"{type(node).__name__}: {key}")
        return m(node)

    def _Constant(self, n):
        return n.value

    def _Name(self, n):
        if n.id in self.locals:
            return self.locals[n.id]
        if n.id in self.bound:
            return self.bound[n.id]
        if n.id in self.consts:
            return self.consts[n.id]
        if n.id in _TYPES:
            return _TYPES[n.id]
        if n.id in ("True", "False", "None"):
            return {"True": True, "False": False, "None": None}[n.id]
        if n.id in self.funcs:
            return self.funcs[n.id]  # a supplied / lifted callable passed around as a value (map(f, xs), key=f)
        home = self._home_of(n)
        if home is not None and n.id in home.module_funcs:
            return home.helper(n.id)  # a helper of the same module passed around as a value (functools.partial(helper, ...))
        if home is not None and n.id in home.module_globals:
            return home.module_globals[n.id]  # a module-level table
        if n.id in self.defs and self._depth < 6:
            self._depth += 1
            try:
                return self.ev(self.defs[n.id])
            finally:
                self._depth -= 1
        raise Unfoldable(f"unbound name {n.id}")

    def _Attribute(self, n):
        base = self.ev(n.value)
        if isinstance(base, Obj):
            if n.attr == "__dict__":
                return base.__dict__
            if n.attr in base.__dict__:
                return base.__dict__[n.attr]
            model = getattr(type(base), "_model", None)
            if model is not None and n.attr in model.init_literals:
                return model.init_literals[n.attr]
            home = self._home_of(n)
            if home is not None and home.self_obj is base and n.attr in home.class_attrs:
                return home.class_attrs[n.attr]   # class-level attribute of the class the folded method belongs to (shared state)
            raise Unfoldable(f"attribute {n.attr} not in domain object")
        if isinstance(base, tuple) and hasattr(base, "_fields") and n.attr in base._fields:
            return getattr(base, n.attr)
        if isinstance(base, slice) and n.attr in ("start", "stop", "step"):
            return getattr(base, n.attr)
        d = getattr(base, "__dict__", None)
        if isinstance(d, dict) and n.attr in d and not n.attr.startswith("__"):
            return d[n.attr]  # plain record supplied by the rule's sample domain
        if isinstance(base, (int, float, str, bytes, list, dict, set, frozenset, type(None))) or (isinstance(base, tuple) and not hasattr(base, "_fields")):
            if not hasattr(base, n.attr):
                raise Raised("AttributeError")   # a value of a built-in type has no such attribute: the program raises here
        if getattr(type(base), "_fold_ok", False) and not n.attr.startswith("__") and n.attr in vars(type(base)) \
                and not callable(vars(type(base))[n.attr]):
            return vars(type(base))[n.attr]  # class-level data attribute of a sample-domain class
        if getattr(type(base), "_fold_ok", False) and not n.attr.startswith("__") and callable(getattr(base, n.attr, None)):
            return getattr(base, n.attr)     # a bound method of a sample-domain object passed around as a value (dispatch tables)
        if isinstance(base, type) and getattr(base, "_fold_ok", False) and not n.attr.startswith("__") and n.attr in vars(base) \
                and not callable(vars(base)[n.attr]):
            return vars(base)[n.attr]        # ... read through the class itself (Solver.OPTIMAL)
        raise Unfoldable(f"attribute read {ast.unparse(n)}")

    def _Slice(self, n):
        return slice(self.ev(n.lower) if n.lower else None, self.ev(n.upper) if n.upper else None, self.ev(n.step) if n.step else None)

    def _Subscript(self, n):
        base = self.ev(n.value)
        if isinstance(n.slice, ast.Slice):
            lo = self.ev(n.slice.lower) if n.slice.lower else None
            hi = self.ev(n.slice.upper) if n.slice.upper else None
            st = self.ev(n.slice.step) if n.slice.step else None
            return base[lo:hi:st]
        idx = self.ev(n.slice)
        try:
            return base[idx]
        except (KeyError, IndexError, TypeError) as e:
            raise Raised(type(e).__name__)

    def _elts(self, elts):
        out = []
        for e in elts:
            if isinstance(e, ast.Starred):
                out.extend(self.ev(e.value))
            else:
                out.append(self.ev(e))
        return out

    def _Tuple(self, n):
        return tuple(self._elts(n.elts))

    def _List(self, n):
        return self._elts(n.elts)

    def _Set(self, n):
        return set(self._elts(n.elts))

    def _Dict(self, n):
        out = {}
        for k, v in zip(n.keys, n.values):
            if k is None:
                out.update(self.ev(v))
            else:
                out[self.ev(k)] = self.ev(v)
        return out

    def _UnaryOp(self, n):
        v = self.ev(n.operand)
        if isinstance(n.op, ast.Not):
            return not v
        if isinstance(n.op, ast.USub):
            return -v
        if isinstance(n.op, ast.UAdd):
            return +v
        raise Unfoldable("unary op")

    def _BinOp(self, n):
        f = _BIN.get(type(n.op))
        if f is None:
            raise Unfoldable("binary op")
        a, b = self.ev(n.left), self.ev(n.right)
        try:
            return f(a, b)
        except ZeroDivisionError:
            raise Raised("ZeroDivisionError")
        except TypeError:
            raise Raised("TypeError")

    def _BoolOp(self, n):
        if isinstance(n.op, ast.And):
            v = True
            for e in n.values:
                v = self.ev(e)
                if not v:
                    return v
            return v
        v = False
        for e in n.values:
            v = self.ev(e)
            if v:
                return v
        return v

    def _Compare(self, n):
        left = self.ev(n.left)
        for op, c in zip(n.ops, n.comparators):
            right = self.ev(c)
            f = _CMP.get(type(op))
            if f is None:
                raise Unfoldable("comparison")
            try:
                r = f(left, right)
            except TypeError:
                raise Raised("TypeError")
            if len(n.ops) == 1 and not isinstance(r, bool):
                return r  # a sample-domain object that overloads the comparison (e.g. a recorded linear constraint)
            if not r:
                return False
            left = right
        return True

    def _IfExp(self, n):
        return self.ev(n.body) if self.ev(n.test) else self.ev(n.orelse)

    def _JoinedStr(self, n):
        out = []
        for v in n.values:
            if isinstance(v, ast.Constant):
                out.append(str(v.value))
            else:
                if v.format_spec is not None:
                    raise Unfoldable("format spec")
                out.append(str(self.ev(v.value)))
        return "".join(out)

    def _Starred(self, n):
        raise Unfoldable("starred")

    def _Lambda(self, n):
        a = n.args
        if a.kwarg or a.kwonlyargs or a.posonlyargs:
            raise Unfoldable("lambda with keyword-only / positional-only parameters")
        names = [x.arg for x in a.args]
        defaults = [self.ev(d) for d in a.defaults]   # evaluated once, when the lambda is created
        vararg = a.vararg.arg if a.vararg else None
        outer = self

        def fn(*vals):
            vals = list(vals)
            if len(vals) < len(names):
                missing = len(names) - len(vals)
                if missing > len(defaults):
                    raise Raised("TypeError")
                vals += defaults[len(defaults) - missing:]
            rest = vals[len(names):]
            if rest and vararg is None:
                raise Raised("TypeError")
            saved = dict(outer.locals)
            try:
                for k, v in zip(names, vals):
                    outer.locals[k] = v
                if vararg is not None:
                    outer.locals[vararg] = tuple(rest)
                return outer.ev(n.body)
            finally:
                outer.locals = saved

        return fn

    def _closure(self, fn):
        """A nested `def`: callable over domain values (Python calling convention); a generator function returns the list of yielded values."""
        a = fn.args
        if a.posonlyargs:
            raise Unfoldable("nested def with positional-only parameters")
        names = [x.arg for x in a.args]
        defaults = [None] * (len(names) - len(a.defaults)) + list(a.defaults)
        kwonly = [x.arg for x in a.kwonlyargs]
        kwdefaults = dict(zip(kwonly, a.kw_defaults))
        vararg = a.vararg.arg if a.vararg else None
        kwarg = a.kwarg.arg if a.kwarg else None
        outer = self
        is_gen = any(isinstance(n, (ast.Yield, ast.YieldFrom)) for st in fn.body for n in ast.walk(st))
        rebinds = {nm for st in fn.body if isinstance(st, ast.Nonlocal) for nm in st.names}   # `nonlocal x`: rebinding x is seen by the enclosing call

        def call(*vals, **kw):
            saved, saved_y = dict(outer.locals), outer.yields
            outer.yields = []
            try:
                kw = dict(kw)
                if len(vals) > len(names) and vararg is None:
                    raise Raised("TypeError")
                for i, nme in enumerate(names):
                    if i < len(vals):
                        if nme in kw:
                            raise Raised("TypeError")
                        outer.locals[nme] = vals[i]
                    elif nme in kw:
                        outer.locals[nme] = kw.pop(nme)
                    elif defaults[i] is not None:
                        outer.locals[nme] = outer.ev(defaults[i])
                    else:
                        raise Raised("TypeError")
                if vararg is not None:
                    outer.locals[vararg] = tuple(vals[len(names):])
                for nme in kwonly:
                    if nme in kw:
                        outer.locals[nme] = kw.pop(nme)
                    elif kwdefaults.get(nme) is not None:
                        outer.locals[nme] = outer.ev(kwdefaults[nme])
                    else:
                        raise Raised("TypeError")
                if kwarg is not None:
                    outer.locals[kwarg] = kw
                elif kw:
                    raise Raised("TypeError")
                try:
                    outer._block([s_ for s_ in fn.body if not (isinstance(s_, ast.Expr) and isinstance(s_.value, ast.Constant))])
                    ret = None
                except _Return as r:
                    ret = r.value
                return list(outer.yields) if is_gen else ret
            finally:
                # closures may update enclosing containers in place, but local rebinding stays local -- except for names declared nonlocal
                for nm in rebinds:
                    if nm in outer.locals:
                        saved[nm] = outer.locals[nm]
                outer.locals = saved
                outer.yields = saved_y

        return call

    def _iter(self, node):
        """Iterator over the value of `node`; a value that cannot be iterated is the program's TypeError."""
        v = self.ev(node)
        try:
            return iter(v)
        except TypeError:
            raise Raised("TypeError")

    def _comp(self, gens, body):
        def rec(i):
            if i == len(gens):
                yield body()
                return
            g = gens[i]
            for item in self._iter(g.iter):
                self._assign(g.target, item)
                if all(self.ev(c) for c in g.ifs):
                    yield from rec(i + 1)

        saved = dict(self.locals)
        try:
            return list(rec(0))
        finally:
            self.locals = saved

    def _ListComp(self, n):
        return self._comp(n.generators, lambda: self.ev(n.elt))

    def _GeneratorExp(self, n):
        return iter(self._comp(n.generators, lambda: self.ev(n.elt)))

    def _SetComp(self, n):
        return set(self._comp(n.generators, lambda: self.ev(n.elt)))

    def _DictComp(self, n):
        return dict(self._comp(n.generators, lambda: (self.ev(n.key), self.ev(n.value))))

    def _Call(self, n):
        key = ast.unparse(n.func)
        args = []
        for a in n.args:
            if isinstance(a, ast.Starred):
                args.extend(self.ev(a.value))
            else:
                args.append(self.ev(a))
        kwargs = {}
        for k in n.keywords:
            if k.arg:
                kwargs[k.arg] = self.ev(k.value)
            else:
                more = self.ev(k.value)
                if not isinstance(more, dict):
                    raise Raised("TypeError")
                kwargs.update(more)
        if key in self.funcs:
            try:
                return self.funcs[key](*args, **kwargs)
            except (TypeError, ValueError, KeyError, IndexError, AttributeError, ZeroDivisionError) as e:
                raise Raised(type(e).__name__)  # the fragment misuses a supplied pure function: the program would raise too
        if key in ("functools.partial", "partial") and args and callable(args[0]):
            import functools as _ft

            return _ft.partial(*args, **kwargs)
        if key in _STD_CONTAINERS:
            return self._builtin(_STD_CONTAINERS[key], args, kwargs)
        if key in _STD_PURE and key.split(".")[0] not in self.locals and key.split(".")[0] not in self.bound and key not in self.funcs:
            try:
                return _STD_PURE[key](*args, **kwargs)   # pure functions of the standard library over built-in values
            except (TypeError, ValueError, IndexError) as e:
                raise Raised(type(e).__name__)
        if key in _STD_RE and "re" not in self.locals and "re" not in self.bound:
            try:
                return _STD_RE[key](*args, **kwargs)    # regular expressions of the standard library: pure functions of strings
            except (TypeError, ValueError, IndexError) as e:
                raise Raised(type(e).__name__)
            except _re.error:
                raise Raised("re.error")
        if isinstance(n.func, ast.Name):
            if n.func.id not in self.locals and n.func.id in self.bound and callable(self.bound[n.func.id]):
                return self.bound[n.func.id](*args, **kwargs)
            if n.func.id in self.locals and callable(self.locals[n.func.id]):
                f = self.locals[n.func.id]
                if f in _TYPES.values():
                    return self._builtin(f, args, kwargs)
                return f(*args, **kwargs)
            if n.func.id in _BUILTINS:
                return self._builtin(_BUILTINS[n.func.id], args, kwargs)
            if n.func.id in _BUILTIN_EXC or n.func.id.endswith("Exception") or n.func.id.endswith("Error"):
                return ("exception", n.func.id, args)
            home = self._home_of(n)
            if home is not None and n.func.id in home.module_funcs:
                return home.helper(n.func.id)(*args, **kwargs)   # a helper of the same module (e.g. extracted by a refactoring)
            raise Unfoldable(f"call of {key}")
        if isinstance(n.func, ast.Attribute) and isinstance(n.func.value, ast.Name) and n.func.value.id not in self.locals:
            home = self._home_of(n)
            if home is not None and n.func.value.id in home.module_classes:
                cf = home.class_function(n.func.value.id, n.func.attr)
                if cf is not None:
                    h, kind = cf
                    if kind == "class":
                        return h(n.func.value.id, *args, **kwargs)
                    return h(*args, **kwargs)   # K.static(...) or K.method(obj, ...)
        if isinstance(n.func, ast.Attribute):
            recv = self.ev(n.func.value)
            a = n.func.attr
            if isinstance(recv, Obj) and callable(recv.__dict__.get(a)):
                try:
                    return recv.__dict__[a](*args, **kwargs)
                except (ValueError, KeyError, IndexError, AttributeError, ZeroDivisionError, FileNotFoundError) as e:
                    raise Raised(type(e).__name__)  # a stub of the sample domain signals what the real collaborator would raise
            if getattr(type(recv), "_fold_ok", False) and callable(getattr(recv, a, None)):
                try:
                    return getattr(recv, a)(*args, **kwargs)  # method of a sample-domain class supplied by the rule
                except (ValueError, KeyError, IndexError, AttributeError, ZeroDivisionError, TypeError) as e:
                    raise Raised(type(e).__name__)
            model = getattr(type(recv), "_model", None)
            if model is not None and model.has(a):
                return model.call(a, recv, args, kwargs)  # real method of the class in /repo, lifted on demand
            if isinstance(recv, str) and a in _STR_METHODS:
                return self._builtin(getattr(recv, a), args, kwargs)
            if isinstance(recv, (dict, list, tuple, set)) and a in _CONTAINER_METHODS:
                return self._builtin(getattr(recv, a), args, kwargs)
            if isinstance(recv, _re.Match) and a in ("group", "groups", "start", "end", "span", "groupdict"):
                return self._builtin(getattr(recv, a), args, kwargs)
            if (isinstance(recv, bytes) and a in ("decode", "strip", "startswith", "endswith")) or (isinstance(recv, str) and a == "encode"):
                return self._builtin(getattr(recv, a), args, kwargs)
            home = self._home_of(n)
            if home is not None and home.self_obj is not None and recv is home.self_obj and a in home.class_methods:
                return home.method(a)(recv, *args, **kwargs)      # another method of the object the folded method belongs to
            raise Unfoldable(f"method call {key} on {type(recv).__name__}")
        if isinstance(n.func, (ast.Call, ast.Subscript, ast.IfExp)):
            # the callee is computed: `type(x)(v)`, `table[k](v)`, `(f if c else g)(v)`
            f = self.ev(n.func)
            if f in _TYPES.values():
                return self._builtin(f, args, kwargs)
            if callable(f) and not isinstance(f, type):
                return f(*args, **kwargs)
        raise Unfoldable(f"call of {key}")

    def _builtin(self, f, args, kwargs):
        try:
            return f(*args, **kwargs)
        except (ValueError, TypeError, KeyError, IndexError, ZeroDivisionError, AttributeError) as e:
            raise Raised(type(e).__name__)

    # -- statements -----------------------------------------------------------------------
    def _assign(self, target, value):
        if isinstance(target, ast.Name):
            self.locals[target.id] = value
        elif isinstance(target, (ast.Tuple, ast.List)):
            try:
                vals = list(value)
            except TypeError:
                raise Raised("TypeError")  # unpacking a non-iterable: the program raises too
            star = [i for i, t in enumerate(target.elts) if isinstance(t, ast.Starred)]
            if star:
                i = star[0]
                after = len(target.elts) - i - 1
                if len(vals) < len(target.elts) - 1:
                    raise Raised("ValueError")
                for t, v in zip(target.elts[:i], vals[:i]):
                    self._assign(t, v)
                self._assign(target.elts[i].value, vals[i:len(vals) - after])
                for t, v in zip(target.elts[i + 1:], vals[len(vals) - after:]):
                    self._assign(t, v)
                return
            if len(vals) != len(target.elts):
                raise Raised("ValueError")
            for t, v in zip(target.elts, vals):
                self._assign(t, v)
        elif isinstance(target, ast.Subscript):
            base = self.ev(target.value)
            try:
                base[self.ev(target.slice)] = value
            except (TypeError, IndexError, KeyError) as e:
                raise Raised(type(e).__name__)   # the store itself fails in the program (wrong container kind, index out of range)
        elif isinstance(target, ast.Attribute):
            base = self.ev(target.value)
            if not isinstance(base, Obj):
                raise Unfoldable("attribute store")
            base.__dict__[target.attr] = value
        else:
            raise Unfoldable("assignment target")

    def run(self, stmts: List[ast.stmt]):
        """Execute a block. Returns ('fall', None) | ('return', v) | ('raise', kind) | ('continue', None)."""
        try:
            self._block(stmts)
        except _Return as r:
            return ("return", r.value)
        except Raised as r:
            self.last_raised = r
            return ("raise", r.kind)
        except _Continue:
            return ("continue", None)
        except _Break:
            return ("break", None)
        return ("fall", None)

    def _block(self, stmts):
        for st in stmts:
            try:
                self._exec(st)
            except Raised as r:
                if r.where is None and not isinstance(st, (ast.For, ast.While, ast.If, ast.With, ast.Try)):
                    try:
                        r.where = (getattr(st, "lineno", 0), ast.unparse(st).splitlines()[0][:100])
                    except Exception:
                        pass
                raise

    def _exec(self, st):
        if isinstance(st, ast.Assign):
            v = self.ev(st.value)
            for t in st.targets:
                self._assign(t, v)
        elif isinstance(st, ast.AnnAssign):
            if st.value is not None:
                self._assign(st.target, self.ev(st.value))
        elif isinstance(st, ast.AugAssign):
            f = _IBIN.get(type(st.op))  # in-place semantics: `s |= t` mutates a set / list exactly as Python does
            if f is None:
                raise Unfoldable("augmented op")
            load = ast.copy_location(_as_load(st.target), st.target)
            self._assign(st.target, f(self.ev(load), self.ev(st.value)))
        elif isinstance(st, ast.If):
            if self.ev(st.test):
                self._block(st.body)
            else:
                self._block(st.orelse)
        elif isinstance(st, ast.For):
            for item in self._iter(st.iter):
                self._assign(st.target, item)
                try:
                    self._block(st.body)
                except _Continue:
                    continue
                except _Break:
                    break
        elif isinstance(st, ast.Delete):
            for t in st.targets:
                if isinstance(t, ast.Subscript):
                    base = self.ev(t.value)
                    try:
                        if isinstance(t.slice, ast.Slice):
                            lo = self.ev(t.slice.lower) if t.slice.lower else None
                            hi = self.ev(t.slice.upper) if t.slice.upper else None
                            stp = self.ev(t.slice.step) if t.slice.step else None
                            del base[lo:hi:stp]
                        else:
                            del base[self.ev(t.slice)]
                    except (KeyError, IndexError, TypeError) as e:
                        raise Raised(type(e).__name__)
                elif isinstance(t, ast.Name):
                    self.locals.pop(t.id, None)
                else:
                    raise Unfoldable("delete target")
        elif isinstance(st, (ast.FunctionDef,)):
            self.locals[st.name] = self._closure(st)
        elif isinstance(st, ast.While):
            n = 0
            while self.ev(st.test):
                n += 1
                if n > 100000:
                    raise Unfoldable("while loop does not terminate on the sample domain")
                try:
                    self._block(st.body)
                except _Continue:
                    continue
                except _Break:
                    break
        elif isinstance(st, ast.With):
            for it in st.items:
                v = self.ev(it.context_expr)
                if getattr(type(v), "_fold_enter", False):   # a stub whose managed value differs from the manager
                    v = v.__enter__()
                if it.optional_vars is not None:
                    self._assign(it.optional_vars, v)
            self._block(st.body)
        elif isinstance(st, ast.Return):
            raise _Return(self.ev(st.value) if st.value is not None else None)
        elif isinstance(st, ast.Raise):
            kind = "Exception"
            if st.exc is not None:
                e = st.exc
                if isinstance(e, ast.Call):
                    kind = ast.unparse(e.func)
                else:
                    kind = ast.unparse(e)
            raise Raised(kind)
        elif isinstance(st, ast.Continue):
            raise _Continue()
        elif isinstance(st, ast.Break):
            raise _Break()
        elif isinstance(st, (ast.Pass, ast.Import, ast.ImportFrom, ast.Nonlocal)):
            pass  # imported names are resolved through the table of supplied callables when they are used
        elif isinstance(st, ast.Expr) and isinstance(st.value, ast.Yield):
            self._emit(self.ev(st.value.value) if st.value.value is not None else None)
        elif isinstance(st, ast.Expr) and isinstance(st.value, ast.YieldFrom):
            inner_ = self.ev(st.value.value)
            if isinstance(inner_, _LazyGen) and not inner_._started and getattr(self, "on_yield", None) is not None:
                inner_.run_inline(self.on_yield)   # `yield from` a fresh lifted generator: its body runs here, its items go to our consumer
            else:
                for item_ in inner_:
                    self._emit(item_)
        elif isinstance(st, ast.Expr):
            if isinstance(st.value, ast.Constant):
                return
            # calls for effect (logging etc.) are not part of the language unless bound
            key = ast.unparse(st.value.func) if isinstance(st.value, ast.Call) else None
            if key and (key in self.funcs or key.startswith("log.") or key == "print"):
                if key in self.funcs:
                    self.ev(st.value)
                return
            self.ev(st.value)
        elif isinstance(st, ast.Assert):
            if not self.ev(st.test):
                raise Raised("AssertionError")
        elif isinstance(st, ast.Try):
            try:
                try:
                    self._block(st.body)
                except Raised as r:
                    for h in st.handlers:
                        if self._handler_matches(h, r.kind):
                            self._block(h.body)
                            break
                    else:
                        raise
                else:
                    self._block(st.orelse)
            except Unfoldable:
                raise
            except BaseException:
                # `finally` runs on every way out of the statement: exception passing through, return, break, continue
                if st.finalbody:
                    self._block(st.finalbody)
                raise
            else:
                if st.finalbody:
                    self._block(st.finalbody)
        else:
            raise Unfoldable(f"statement {type(st).__name__}")

    def _handler_matches(self, h: ast.ExceptHandler, kind: str) -> bool:
        if h.type is None:
            return True
        names = []
        if isinstance(h.type, ast.Tuple):
            names = [ast.unparse(e) for e in h.type.elts]
        else:
            names = [ast.unparse(h.type)]
        for nm in names:
            if nm == kind or nm in ("Exception", "BaseException"):
                return True
            a, b = _BUILTIN_EXC.get(kind), _BUILTIN_EXC.get(nm)
            if a and b and issubclass(a, b):
                return True
        return False


def _as_load(target):
    t = ast.parse(ast.unparse(target), mode="eval").body
    return t


def fold_expr(expr: ast.AST, env: Dict[str, Any], funcs=None, consts=None):
    """Value of `expr` under `env`; ('raise', kind) if it raises. Unfoldable propagates."""
    ev = Evaluator(env, funcs, consts)
    try:
        return ev.ev(expr)
    except Raised as r:
        return ("raise", r.kind)


def module_consts(mod) -> Dict[str, Any]:
    """Module-level NAME = <numeric/str literal> constants of a parsed module."""
    out = {}
    for st in mod.tree.body:
        if isinstance(st, ast.Assign) and len(st.targets) == 1 and isinstance(st.targets[0], ast.Name):
            try:
                out[st.targets[0].id] = ast.literal_eval(st.value)
            except Exception:
                pass
    return out


def single_defs(func) -> Dict[str, ast.AST]:
    """Locals of `func` that are bound exactly once, by a plain `name = expr` (no augmented
    assignment, not a loop / with / except / comprehension target, not a parameter)."""
    from .loader import walk_local

    count: Dict[str, int] = {}
    defs: Dict[str, ast.AST] = {}
    a = func.args
    params = {x.arg for x in a.posonlyargs + a.args + a.kwonlyargs}
    if a.vararg:
        params.add(a.vararg.arg)
    if a.kwarg:
        params.add(a.kwarg.arg)

    def bump(t):
        for n in ast.walk(t):
            if isinstance(n, ast.Name):
                count[n.id] = count.get(n.id, 0) + 2

    for n in walk_local(func):
        if isinstance(n, ast.Assign):
            if len(n.targets) == 1 and isinstance(n.targets[0], ast.Name):
                nm = n.targets[0].id
                count[nm] = count.get(nm, 0) + 1
                defs[nm] = n.value
            else:
                for t in n.targets:
                    if not isinstance(t, (ast.Subscript, ast.Attribute)):
                        bump(t)
        elif isinstance(n, ast.AnnAssign) and isinstance(n.target, ast.Name) and n.value is not None:
            count[n.target.id] = count.get(n.target.id, 0) + 1
            defs[n.target.id] = n.value
        elif isinstance(n, ast.AugAssign):
            if isinstance(n.target, ast.Name):
                bump(n.target)
        elif isinstance(n, (ast.For, ast.AsyncFor)):
            bump(n.target)
        elif isinstance(n, (ast.With, ast.AsyncWith)):
            for it in n.items:
                if it.optional_vars is not None:
                    bump(it.optional_vars)
        elif isinstance(n, ast.ExceptHandler) and n.name:
            count[n.name] = count.get(n.name, 0) + 2
        elif isinstance(n, ast.NamedExpr):
            bump(n.target)
    return {k: v for k, v in defs.items() if count.get(k) == 1 and k not in params}


class Lifted:
    """A function of /repo lifted into the folding language with Python's calling convention: defaults are evaluated
    once (at lift time, so a mutable default is shared between calls exactly as in Python), positional, keyword, *args
    and **kwargs are bound per call, the body runs in a fresh Evaluator. Calling it returns the function's value;
    an exception of the fragment propagates as Raised."""

    def __init__(self, fn, funcs=None, consts=None, env=None, hook=None):
        self.fn, self.funcs, self.consts, self.env, self.hook = fn, dict(funcs or {}), dict(consts or {}), dict(env or {}), hook
        a = fn.args
        ev = Evaluator(self.env, self.funcs, self.consts)
        pos = a.posonlyargs + a.args
        self.pos = [x.arg for x in pos]
        self.defaults = {}
        for x, d in zip(pos[len(pos) - len(a.defaults):], a.defaults):
            self.defaults[x.arg] = ev.ev(d)
        self.kwonly = [x.arg for x in a.kwonlyargs]
        for x, d in zip(a.kwonlyargs, a.kw_defaults):
            if d is not None:
                self.defaults[x.arg] = ev.ev(d)
        self.vararg = a.vararg.arg if a.vararg else None
        self.kwarg = a.kwarg.arg if a.kwarg else None
        self.body = [s for s in fn.body if not (isinstance(s, ast.Expr) and isinstance(s.value, ast.Constant))]
        # where the function lives: sibling helpers of its module and sibling methods of its class can be lifted on demand
        self.module_funcs, self.class_methods, self.self_obj = {}, {}, None
        mod = getattr(fn, "_mod", None)
        self.module_classes = {}
        self.module_globals = {}
        if mod is not None:
            # module-level container literals are state that lives as long as the parsed module (= one run of a check = one process)
            if not hasattr(mod, "_fold_globals"):
                mod._fold_globals = {}
                for node in mod.tree.body:
                    tgt = node.targets[0] if isinstance(node, ast.Assign) and len(node.targets) == 1 else getattr(node, "target", None)
                    val = getattr(node, "value", None)
                    if isinstance(tgt, ast.Name) and val is not None:
                        if isinstance(val, ast.Dict) and not val.keys:
                            mod._fold_globals[tgt.id] = {}
                        elif isinstance(val, ast.List) and not val.elts:
                            mod._fold_globals[tgt.id] = []
                        elif isinstance(val, ast.Call) and not val.args and not val.keywords and ast.unparse(val.func) in ("dict", "list", "set"):
                            mod._fold_globals[tgt.id] = {"dict": dict, "list": list, "set": set}[ast.unparse(val.func)]()
                        else:
                            try:   # any other module-level literal (a number, a string, a filled table): one object per parsed module
                                mod._fold_globals[tgt.id] = ast.literal_eval(val)
                            except (ValueError, SyntaxError, TypeError, MemoryError, RecursionError):
                                try:   # a constant computed from literals by pure built-ins (str.maketrans({...}), 2 ** 10, frozenset((...)))
                                    mod._fold_globals[tgt.id] = Evaluator({}).ev(val)
                                except Exception:  # noqa: BLE001 -- not a constant the language can compute: stays unbound (Unfoldable where used)
                                    pass
            self.module_globals = mod._fold_globals
            self.module_funcs = {n.name: n for n in mod.tree.body if isinstance(n, ast.FunctionDef) and n is not fn}
            self.module_classes = {n.name: n for n in mod.tree.body if isinstance(n, ast.ClassDef)}
        par = getattr(fn, "_parent", None)
        self.class_attrs = {}
        if isinstance(par, ast.ClassDef):
            self.class_methods = {n.name: n for n in par.body if isinstance(n, ast.FunctionDef) and n is not fn}
            # class-level data attributes with a literal value: one object per parsed class, shared by every instance and every
            # fold of one run of a check (= one process), exactly as the class attribute is shared in the running program
            if not hasattr(par, "_fold_class_attrs"):
                par._fold_class_attrs = {}
                for node in par.body:
                    tgt = node.targets[0] if isinstance(node, ast.Assign) and len(node.targets) == 1 else getattr(node, "target", None)
                    val = getattr(node, "value", None)
                    if isinstance(tgt, ast.Name) and val is not None and not isinstance(node, ast.FunctionDef):
                        try:
                            par._fold_class_attrs[tgt.id] = ast.literal_eval(val)
                        except (ValueError, SyntaxError, TypeError):
                            if isinstance(val, ast.Call) and not val.args and not val.keywords and ast.unparse(val.func) in ("dict", "list", "set"):
                                par._fold_class_attrs[tgt.id] = {"dict": dict, "list": list, "set": set}[ast.unparse(val.func)]()
            self.class_attrs = par._fold_class_attrs
        self._lifted_helpers = {}
        self.is_gen = any(isinstance(n, (ast.Yield, ast.YieldFrom)) for st in self.body for n in ast.walk(st)
                          if not isinstance(st, (ast.FunctionDef, ast.ClassDef)))

    def helper(self, name):
        if name not in self._lifted_helpers:
            h = Lifted(self.module_funcs[name], self.funcs, self.consts, self.env, self.hook)
            h.funcs, h.env = self.funcs, self.env
            self._lifted_helpers[name] = h
        return self._lifted_helpers[name]

    def class_function(self, cls_name, name):
        """`K.name` for a class K of the same module: the lifted function and whether it is a static method."""
        key = f"class:{cls_name}.{name}"
        if key not in self._lifted_helpers:
            node = next((n for n in self.module_classes[cls_name].body if isinstance(n, ast.FunctionDef) and n.name == name), None)
            if node is None:
                return None
            h = Lifted(node, self.funcs, self.consts, self.env, self.hook)
            h.funcs, h.env = self.funcs, self.env
            kind = "static" if any(ast.unparse(d) == "staticmethod" for d in node.decorator_list) else \
                "class" if any(ast.unparse(d) == "classmethod" for d in node.decorator_list) else "plain"
            self._lifted_helpers[key] = (h, kind)
        return self._lifted_helpers[key]

    def method(self, name):
        """Sibling method `name`, callable as m(receiver, *args): a static method drops the receiver, a class method gets the class name."""
        key = "method:" + name
        if key not in self._lifted_helpers:
            node = self.class_methods[name]
            h = Lifted(node, self.funcs, self.consts, self.env, self.hook)
            h.funcs, h.env = self.funcs, self.env
            decos = [ast.unparse(d) for d in node.decorator_list]
            if "staticmethod" in decos:
                self._lifted_helpers[key] = lambda recv, *a, **k: h(*a, **k)
            elif "classmethod" in decos:
                self._lifted_helpers[key] = lambda recv, *a, **k: h(type(recv).__name__, *a, **k)
            else:
                self._lifted_helpers[key] = h
        return self._lifted_helpers[key]

    def bind(self, args, kw):
        loc = {}
        args = list(args)
        for i, nme in enumerate(self.pos):
            if i < len(args):
                loc[nme] = args[i]
        extra = args[len(self.pos):]
        if extra and not self.vararg:
            raise Raised("TypeError")
        if self.vararg:
            loc[self.vararg] = tuple(extra)
        rest = {}
        for k, v in kw.items():
            if k in self.pos or k in self.kwonly:
                if k in loc:
                    raise Raised("TypeError")
                loc[k] = v
            elif self.kwarg:
                rest[k] = v
            else:
                raise Raised("TypeError")
        if self.kwarg:
            loc[self.kwarg] = rest
        for nme in self.pos + self.kwonly:
            if nme not in loc:
                if nme in self.defaults:
                    loc[nme] = self.defaults[nme]
                else:
                    raise Raised("TypeError")
        return loc

    def __call__(self, *args, **kw):
        ev = Evaluator(dict(self.env), self.funcs, self.consts, hook=self.hook)
        ev.locals.update(self.bind(args, kw))
        ev.home = self
        if self.class_methods and self.pos and args:
            self.self_obj = args[0]
        if self.is_gen:
            return _LazyGen(ev, self.body)
        kind, val = ev.run(self.body)
        if kind == "raise":
            raise getattr(ev, "last_raised", None) or Raised(val)
        if self.is_gen:
            return list(ev.yields)  # a generator function: the (finite) sequence it yields
        return val if kind == "return" else None


def lift_module_helpers(tree: ast.Module, funcs: Dict[str, Callable], consts=None, env=None, state: Optional[dict] = None,
                        skip=()) -> None:
    """Interprocedural folding inside one module: every module-level `def` of `tree` that `funcs` does not already bind
    becomes a Lifted callable sharing `funcs`; module-level container literals (`NAME = {}` / `[]` / `set()` / `dict()`)
    become shared objects in `env` that live in `state` for as long as the caller keeps it (= the process); a helper
    decorated with a cache is memoised in `state` likewise."""
    state = state if state is not None else {}
    env = env if env is not None else {}
    glob = state.setdefault("globals", {})
    for node in tree.body:
        tgt, val = None, None
        if isinstance(node, ast.Assign) and len(node.targets) == 1 and isinstance(node.targets[0], ast.Name):
            tgt, val = node.targets[0].id, node.value
        elif isinstance(node, ast.AnnAssign) and isinstance(node.target, ast.Name) and node.value is not None:
            tgt, val = node.target.id, node.value
        if tgt is None or tgt in env:
            continue
        fresh = None
        if isinstance(val, ast.Dict) and not val.keys:
            fresh = dict
        elif isinstance(val, ast.List) and not val.elts:
            fresh = list
        elif isinstance(val, ast.Call) and not val.args and not val.keywords and ast.unparse(val.func) in ("dict", "list", "set"):
            fresh = {"dict": dict, "list": list, "set": set}[ast.unparse(val.func)]
        if fresh is not None:
            if tgt not in glob:
                glob[tgt] = fresh()
            env[tgt] = glob[tgt]
    for node in tree.body:
        if isinstance(node, ast.FunctionDef) and node.name not in funcs and node.name not in skip:
            h = Lifted(node, funcs, consts, env)
            h.funcs = funcs  # shared: helpers may call each other and the stubs of the current scenario
            h.env = env
            if any("cache" in ast.unparse(d) for d in node.decorator_list):
                memo = state.setdefault("memo:" + node.name, {})

                def cached(*a, _h=h, _m=memo, **k):
                    key = repr((a, sorted(k.items())))
                    if key not in _m:
                        _m[key] = _h(*a, **k)
                    return _m[key]
                funcs[node.name] = cached
            else:
                funcs[node.name] = h


class ClassModel:
    """Methods of one class of /repo, lifted on demand: an instance made by `instance(**attrs)` answers attribute reads
    from its own attributes (the rule's stubs) first and falls back to the class's real methods for anything else, so
    a routine that starts calling another method of the class is still folded through the code of /repo."""

    def __init__(self, cls_node: ast.ClassDef, funcs=None, consts=None, env=None):
        self.node = cls_node
        self.funcs, self.consts, self.env = funcs if funcs is not None else {}, consts, env if env is not None else {}
        self.defs = {n.name: n for n in cls_node.body if isinstance(n, ast.FunctionDef)}
        self.methods: Dict[str, Lifted] = {}
        self.cls = type(cls_node.name + "Instance", (Obj,), {"_model": self})
        # attributes the constructor initialises with a literal: a stub that does not set them reads that literal
        self.init_literals: Dict[str, Any] = {}
        init = self.defs.get("__init__")
        if init is not None and init.args.args:
            me = init.args.args[0].arg
            for n in ast.walk(init):
                tgt, val = None, None
                if isinstance(n, ast.Assign) and len(n.targets) == 1:
                    tgt, val = n.targets[0], n.value
                elif isinstance(n, ast.AnnAssign) and n.value is not None:
                    tgt, val = n.target, n.value
                if isinstance(tgt, ast.Attribute) and isinstance(tgt.value, ast.Name) and tgt.value.id == me and isinstance(val, ast.Constant):
                    self.init_literals[tgt.attr] = val.value

    def has(self, name):
        return name in self.defs

    def is_static(self, name):
        return any(ast.unparse(d) in ("staticmethod",) for d in self.defs[name].decorator_list)

    def call(self, name, recv, args, kwargs):
        if name not in self.methods:
            m = Lifted(self.defs[name], self.funcs, self.consts, self.env)
            m.funcs, m.env = self.funcs, self.env
            self.methods[name] = m
        if self.is_static(name):
            return self.methods[name](*args, **kwargs)
        return self.methods[name](recv, *args, **kwargs)

    def instance(self, **attrs):
        return self.cls(**attrs)


class _LazyGen:
    """A generator function of /repo run lazily, as Python would: the body executes in a helper thread that is parked at every
    `yield` until the consumer asks for the next item, so that what the consumer does between two items (reading solver
    values, breaking out of the loop) happens at the right moment. Errors of the body surface at the consumer's next()."""

    def __init__(self, ev, body):
        import threading

        import sys as _sys

        if _sys.getrecursionlimit() < 60000:
            _sys.setrecursionlimit(60000)
        threading.stack_size(512 * 1024 * 1024)   # delegated generators recurse in one helper thread
        self._want = threading.Semaphore(0)
        self._have = threading.Semaphore(0)
        self._item = None
        self._done = False
        self._error = None
        self._started = False

        def emit(value):
            self._item = value
            self._have.release()
            self._want.acquire()

        def run():
            self._want.acquire()
            try:
                ev.on_yield = emit
                kind, val = ev.run(body)
                if kind == "raise":
                    self._error = getattr(ev, "last_raised", None) or Raised(val)
            except BaseException as e:  # Unfoldable and internal errors travel to the consumer too
                self._error = e
            self._done = True
            self._have.release()

        self._ev, self._body = ev, body
        self._thread = threading.Thread(target=run, daemon=True)

    def run_inline(self, on_yield):
        """Execute the body in the caller's thread, handing every item to `on_yield` (delegation by `yield from`)."""
        self._started = True
        self._ev.on_yield = on_yield
        kind, val = self._ev.run(self._body)
        self._done = True
        if kind == "raise":
            raise getattr(self._ev, "last_raised", None) or Raised(val)

    def __iter__(self):
        return self

    def __next__(self):
        if self._done:
            raise StopIteration
        if not self._started:
            self._started = True
            self._thread.start()
        self._want.release()
        self._have.acquire()
        if self._done:
            if self._error is not None:
                err, self._error = self._error, None
                raise err
            raise StopIteration
        return self._item
