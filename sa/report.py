"""
Result collection, known-findings matching, evidence / replay files and the exit-code contract.

exit 0  every rule instance discharged (KNOWN-FINDING lines allowed)
exit 1  at least one unlisted violation; one `VIOLATION property=<id> replay=<path>` line each
exit 2  ANALYSIS-ERROR (vanished anchor, construct outside a rule's language, floor not reached)
"""

import ast
import json
import os
import time
from typing import Any, Dict, List, Optional

from .loader import AnalysisError, Repo, loc, qual_of, text

VERIF = os.path.dirname(os.path.dirname(os.path.abspath(__file__)))


class Result:
    def __init__(self, property_id: str):
        self.property_id = property_id
        self.obligations: List[Dict[str, Any]] = []
        self.errors: List[str] = []
        self.notes: List[str] = []
        self.functions: set = set()
        self.modules: set = set()
        self.counters: Dict[str, int] = {}

    # ------------------------------------------------------------------------------------
    def analysed(self, *funcs):
        for f in funcs:
            if isinstance(f, str):
                self.functions.add(f)
                self.modules.add(f.split("::")[0])
            else:
                q = qual_of(f)
                self.functions.add(q)
                self.modules.add(q.split("::")[0])

    def ob(self, rule: str, site, construct, ok: bool, expected: str = "", found: str = "",
           clause: str = "", key: Optional[str] = None):
        """Record one rule instance (obligation).
        site: AST node (location + enclosing function are derived) or 'module::qualname' string.
        construct: AST node or string naming the construct; `key` overrides the matching key."""
        if isinstance(site, str):
            s, where = site, site
        else:
            s, where = qual_of(site), loc(site)
        if isinstance(construct, ast.AST):
            if hasattr(construct, "lineno") and getattr(construct, "_mod", None) is not None:
                where = loc(construct)
            ctext = text(construct)
        else:
            ctext = str(construct)
        if len(ctext) > 300:
            ctext = ctext[:297] + "..."
        self.obligations.append(
            dict(rule=rule, site=s, where=where, construct=key or ctext, shown=ctext, ok=bool(ok),
                 expected=expected, found=found, clause=clause)
        )
        self.modules.add(s.split("::")[0])
        self.functions.add(s)
        return ok

    def err(self, rule: str, msg: str):
        text = f"{rule}: {msg}"
        if text not in self.errors:   # one line per distinct cause (a rule may meet the same limit on every instance)
            self.errors.append(text)

    def note(self, msg: str):
        self.notes.append(msg)

    def count(self, name: str, n: int = 1):
        self.counters[name] = self.counters.get(name, 0) + n

    def floor(self, rule: str, what: str, got: int, need: int):
        """A rule that matches fewer instances than confirmed by hand is analysis-broken."""
        self.counters[f"{rule}:{what}"] = got
        if got < need:
            self.err(rule, f"instance floor not reached for {what}: matched {got}, confirmed by hand {need}")

    @property
    def failed(self):
        return [o for o in self.obligations if not o["ok"]]


def thorough() -> bool:
    """True when the current run is the thorough tier (larger enumerated domains; VERIF_SEED seeds random choices)."""
    return os.environ.get("VERIF_TIER_EFFECTIVE", os.environ.get("VERIF_TIER", "quick")) == "thorough"


def seed() -> int:
    try:
        return int(os.environ.get("VERIF_SEED", "0"))
    except ValueError:
        return 0


def run_check(module, repo: Repo) -> Result:
    res = Result(module.PROPERTY)
    try:
        module.run(repo, res)
    except AnalysisError as e:
        res.err("engine", str(e))
    except RecursionError:
        res.err("engine", "recursion limit while analysing")
    except Exception as e:  # internal errors are analysis errors, never verdicts
        import traceback

        tb = traceback.format_exc().strip().splitlines()
        res.err("engine", f"internal error {type(e).__name__}: {e} @ {tb[-3].strip() if len(tb) > 2 else ''}")
    return res


# -- known findings ----------------------------------------------------------------------------


def load_known() -> List[Dict[str, Any]]:
    p = os.path.join(VERIF, "known_findings.json")
    if not os.path.exists(p):
        return []
    with open(p) as f:
        return json.load(f).get("findings", [])


def match_known(ob, known) -> Optional[Dict[str, Any]]:
    for k in known:
        if k.get("fixed"):
            continue  # a fixed entry suppresses nothing
        if (
            k.get("property") == ob.get("property")
            and k.get("rule") == ob["rule"]
            and k.get("site") == ob["site"]
            and k.get("construct") == ob["construct"]
        ):
            return k
    return None


# -- output ------------------------------------------------------------------------------------


def finish(module, repo: Optional[Repo], res: Result, tier: str, seed: int, t0: float,
           selftest: Optional[Dict[str, Any]] = None, replay: Optional[str] = None) -> int:
    pid = res.property_id
    known = load_known()
    ev_dir = os.path.join(VERIF, "evidence")
    os.makedirs(ev_dir, exist_ok=True)
    violations, knowns = [], []
    for o in res.failed:
        o["property"] = pid
        k = match_known(o, known)
        (knowns if k else violations).append((o, k))

    print(f"== {pid} ({tier}) : {len(res.obligations)} rule instances over "
          f"{len(res.functions)} functions in {len(res.modules)} modules")
    for n in res.notes:
        print(f"note: {n}")
    for o, k in knowns:
        print(f"KNOWN-FINDING: property={pid} {o['rule']} {o['site']} ({o['where']}): {k['what_fails']}")

    if res.errors:
        for e in res.errors:
            print(f"ANALYSIS-ERROR property={pid} {e}")

    no_files = bool(os.environ.get("VERIF_NOEVIDENCE"))  # scratch runs (seeded changes) must not touch evidence/
    replay_paths = []
    if violations and no_files:
        for i, (o, _) in enumerate(violations, 1):
            print(f"{o['where']}  {o['rule']}  in {o['site']}\n    construct: {o['shown']}\n"
                  f"    expected : {o['expected']}\n    found    : {o['found']}")
            print(f"VIOLATION property={pid} replay=<not written: VERIF_NOEVIDENCE>")
    if not no_files and replay is None:
        # replay files describe the violations of the latest run of this property only
        rdir = os.path.join(ev_dir, "replay")
        if os.path.isdir(rdir):
            for fn in os.listdir(rdir):
                if fn.startswith(pid + "-"):
                    try:
                        os.remove(os.path.join(rdir, fn))
                    except OSError:
                        pass
    if violations and not no_files:
        rdir = os.path.join(ev_dir, "replay")
        os.makedirs(rdir, exist_ok=True)
        for i, (o, _) in enumerate(violations, 1):
            rp = os.path.join(rdir, f"{pid}-{i}.json")
            with open(rp, "w") as f:
                json.dump({k: o[k] for k in ("property", "rule", "site", "where", "construct", "shown",
                                             "expected", "found", "clause")}, f, indent=1)
            replay_paths.append(rp)
            print(f"{o['where']}  {o['rule']}  in {o['site']}\n    construct: {o['shown']}\n"
                  f"    expected : {o['expected']}\n    found    : {o['found']}"
                  + (f"\n    clause   : {o['clause']}" if o["clause"] else ""))
            print(f"VIOLATION property={pid} replay={rp}")

    discharged = sum(1 for o in res.obligations if o["ok"])
    distinct = len({(o["rule"], o["site"], o["construct"]) for o in res.obligations})
    samples = []
    seen_rules = set()
    for o in res.obligations:
        if o["rule"] not in seen_rules or not o["ok"]:
            seen_rules.add(o["rule"])
            samples.append({k: o[k] for k in ("rule", "site", "where", "shown", "expected", "found", "ok")})
    coverage = {
        "explanation": getattr(module, "EXPLANATION", ""),
        "obligations": len(res.obligations),
        "discharged": discharged,
        "evaluations": max(1, len(res.obligations)),
        "distinct_nontrivial": distinct,
        "rule": "one obligation per rule instance (rule id, enclosing function, normalised construct); "
                "distinct = distinct (rule, function, construct) triples matched in the current source",
        "samples": samples[:60],
        "exhaustive": True,
        "functions_analysed": sorted(res.functions),
        "modules": repo.digest(sorted(res.modules)) if repo else {},
        "rules": sorted({o["rule"] for o in res.obligations}),
        "instance_counters": res.counters,
        "known_findings_reported": [
            {"rule": o["rule"], "site": o["site"], "construct": o["construct"]} for o, _ in knowns
        ],
        "notes": res.notes,
        "analysis_errors": res.errors,
    }
    if selftest is not None:
        coverage["selftest"] = selftest
    evidence = {
        "property_id": pid,
        "tier": tier,
        "seed": seed,
        "level": "other",
        "coverage": coverage,
        "assumptions": list(getattr(module, "ASSUMPTIONS", [])) + COMMON_ASSUMPTIONS,
        "wall_s": round(time.time() - t0, 3),
        "violations": len(violations),
    }
    if replay is None and not no_files:
        with open(os.path.join(ev_dir, f"{pid}.json"), "w") as f:
            json.dump(evidence, f, indent=1, sort_keys=False)
            f.write("\n")

    if violations:
        # a rule that reached a verdict keeps it even when another rule of the same check could not be analysed
        print(f"RESULT {pid}: {len(violations)} violation(s), {len(knowns)} known finding(s)"
              + (f"; {len(res.errors)} rule(s) could not be analysed" if res.errors else ""))
        return 1
    if res.errors:
        print(f"RESULT {pid}: analysis broken ({len(res.errors)} error(s)) -- no verdict")
        return 2
    if knowns:
        print(f"RESULT {pid}: no unlisted violation; {discharged} of {len(res.obligations)} rule instances hold, "
              f"{len(knowns)} known finding(s) listed")
    else:
        print(f"RESULT {pid}: held on all {len(res.obligations)} rule instances")
    return 0


COMMON_ASSUMPTIONS = [
    "only aldy/*.py is analysed (aldy/tests and the vendored Cython package aldy/indelpost are excluded)",
    "external calls (stdlib, natsort, yaml, pysam, logbook, ortools) do not mutate their arguments except "
    "through the container-mutator method table",
    "the ILP solver (CBC) returns true optima of the model it is given; no solver is called by the checks",
    "the check decides the named structural part of the property (a necessary condition), not the "
    "numerical behaviour",
]
