"""
Model-site extraction for the ILP builders: addConstr / prod / abssum / setObjective / solutions
call sites with their loop and guard context and their linear normal form.
"""

import ast
from typing import Dict, List, Optional, Tuple

from .cfg import cfg_of
from .fold import Evaluator, Raised, Unfoldable
from .linform import Families, Lin, Linearizer, Coef
from .loader import AnalysisError, call_name, kwarg, walk_local

SENSE = {ast.LtE: "<=", ast.GtE: ">=", ast.Eq: "==", ast.Lt: "<", ast.Gt: ">"}


class Site:
    def __init__(self, call, func, lz: Linearizer):
        self.call, self.func = call, func
        self.cfg = cfg_of(func)
        self.node = self.cfg.node_of(call)
        nm = kwarg(call, "name")
        self.name_expr = nm
        self.prefix = _prefix(nm)
        self.cmp = call.args[0] if call.args else None
        self.sense = None
        self.lin: Optional[Lin] = None
        if isinstance(self.cmp, ast.Compare) and len(self.cmp.ops) == 1:
            self.sense = SENSE.get(type(self.cmp.ops[0]))
            l = lz.lin(self.cmp.left, call).plus(lz.lin(self.cmp.comparators[0], call).neg())
            # canonical orientation:  L <= 0   (a >= site is negated)
            if self.sense == ">=":
                l = l.neg()
            self.lin = l
        self.binders, self.filters = [], []
        for t, p in self.cfg.guards(self.node):
            if isinstance(t, ast.For):
                if p == "iter":
                    self.binders.append((t.target, t.iter))
            else:
                self.filters.append((t, p))

    @property
    def canon_sense(self):
        return "==" if self.sense == "==" else "<="

    def text(self):
        b = ", ".join(f"{ast.unparse(t)} in {ast.unparse(i)[:40]}" for t, i in self.binders)
        f = " & ".join(("" if p else "not ") + ast.unparse(t)[:60] for t, p in self.filters)
        return f"{self.prefix or '?'}: {self.lin.text() if self.lin else '?'} {self.canon_sense} 0  [{b}{' : ' + f if f else ''}]"

    def where(self):
        return self.call


def _prefix(nm) -> str:
    if isinstance(nm, ast.Constant):
        return str(nm.value)
    if isinstance(nm, ast.JoinedStr):
        out = ""
        for v in nm.values:
            if isinstance(v, ast.Constant):
                out += str(v.value)
            else:
                break
        return out
    return ""


class Model:
    """All model sites of one builder function."""

    def __init__(self, func, tables: Optional[List[str]] = None, model_names=("model", "self")):
        self.func = func
        self.fams = Families(func)
        self.lz = Linearizer(func, self.fams, tables)
        self.sites: List[Site] = []
        self.prods: List[ast.Call] = []
        self.abssums: List[ast.Call] = []
        self.objectives: List[ast.Call] = []
        self.solutions: List[ast.Call] = []
        for c in walk_local(func):
            if isinstance(c, ast.Call) and isinstance(c.func, ast.Attribute):
                a = c.func.attr
                if a == "addConstr":
                    self.sites.append(Site(c, func, self.lz))
                elif a == "prod":
                    self.prods.append(c)
                elif a == "abssum":
                    self.abssums.append(c)
                elif a == "setObjective":
                    self.objectives.append(c)
                elif a == "solutions":
                    self.solutions.append(c)

    def by_prefix(self, prefix: str) -> List[Site]:
        return [s for s in self.sites if s.prefix.startswith(prefix)]

    def equalities(self) -> List[Tuple[Site, Optional[Site]]]:
        """Pairs (<= site, >= site) with the same normal form, and single '==' sites."""
        out = []
        used = set()
        for i, a in enumerate(self.sites):
            if a.lin is None or i in used:
                continue
            if a.sense == "==":
                out.append((a, None))
                continue
            for j, b in enumerate(self.sites):
                if j <= i or j in used or b.lin is None:
                    continue
                if a.sense != b.sense and b.sense in ("<=", ">=") and a.sense in ("<=", ">=") \
                        and a.lin.plus(b.lin).text() == "0" and a.node != b.node \
                        and [ast.unparse(t) for t, _ in a.binders] == [ast.unparse(t) for t, _ in b.binders]:
                    out.append((a, b))
                    used.add(i)
                    used.add(j)
                    break
        return out

    def objective_lin(self) -> Optional[Lin]:
        if not self.objectives:
            return None
        c = self.objectives[-1]
        return self.lz.lin(c.args[0], c)

    def scatter(self, table: str):
        """Stores into a scatter table: [(node, key expr, Lin value | None for init, binders, filters)]."""
        out = []
        cfg = cfg_of(self.func)
        for n in walk_local(self.func):
            tgt = val = None
            sign = 1
            init = False
            if isinstance(n, ast.AugAssign) and isinstance(n.target, ast.Subscript) and isinstance(n.target.value, ast.Name) \
                    and n.target.value.id == table and isinstance(n.op, (ast.Add, ast.Sub)):
                tgt, val = n.target, n.value
                sign = 1 if isinstance(n.op, ast.Add) else -1
            elif isinstance(n, ast.Assign) and isinstance(n.targets[0], ast.Subscript) and isinstance(n.targets[0].value, ast.Name) \
                    and n.targets[0].value.id == table:
                tgt, val, init = n.targets[0], n.value, True
            if tgt is None:
                continue
            lin = self.lz.lin(val, n)
            if sign < 0:
                lin = lin.neg()
            binders, filters = [], []
            for t, p in cfg.guards(cfg.node_of(n)):
                if isinstance(t, ast.For):
                    if p == "iter":
                        binders.append((t.target, t.iter))
                else:
                    filters.append((t, p))
            out.append(dict(node=n, key=tgt.slice, lin=lin, init=init, binders=binders, filters=filters))
        return out


def holds(filters, env, funcs=None, hook=None, defs=None) -> Optional[bool]:
    """Conjunction of guard facts under a concrete binding (None if some test is outside the language)."""
    for t, pol in filters:
        try:
            v = bool(Evaluator(env, funcs=funcs, hook=hook, defs=defs).ev(t))
        except (Unfoldable, Raised):
            return None
        if v != pol:
            return False
    return True


def extension(filters, var: str, domain, env=None, funcs=None, hook=None):
    """{x in domain | filters hold with var := x}; raises Unfoldable if undecidable."""
    out = set()
    for x in domain:
        e = dict(env or {})
        e[var] = x
        h = holds(filters, e, funcs, hook)
        if h is None:
            raise Unfoldable("filter outside the folding language: " + " & ".join(ast.unparse(t) for t, _ in filters))
        if h:
            out.add(x)
    return out
