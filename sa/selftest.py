"""
Arming self-test (thorough tier).

For every rule instance a check module lists at least one *breaking* edit (the rule must fire and
name the expected rule id) and a set of *benign*, behaviour-preserving edits (the check must stay
silent).  Edits are exact-once textual replacements applied to an in-memory copy of one module of
the *current* tree; nothing is written to disk and the property verdict never depends on them: an
un-armed instance is printed as CHECKER-WARNING and recorded in the evidence file.
"""

import concurrent.futures
import importlib
import os
from typing import Any, Dict, List

from .loader import Repo
from .report import run_check


def _keyset(res):
    return {(o["rule"], o["site"], o["construct"]) for o in res.failed}


def _one(args):
    modname, sources, root, mut, base_failed = args
    os.environ["VERIF_TIER_EFFECTIVE"] = "quick"  # mutants are judged on the quick domains
    chk = importlib.import_module(modname)
    src = sources[mut["module"]]
    want = mut.get("count", 1)
    if mut.get("edits"):
        new = src
        for old_, new_ in mut["edits"]:
            if new.count(old_) != 1:
                return dict(name=mut["name"], status="stale", detail=f"pattern occurs {new.count(old_)}x (expected 1): {old_[:40]!r}")
            new = new.replace(old_, new_)
    elif mut.get("regex"):
        import re

        new, n = re.subn(mut["old"], mut["new"], src)
        if n < 1 or (want != 1 and n != want):
            return dict(name=mut["name"], status="stale", detail=f"regex matched {n}x")
    else:
        n = src.count(mut["old"])
        if n != want:
            return dict(name=mut["name"], status="stale", detail=f"pattern occurs {n}x (expected {want})")
        new = src.replace(mut["old"], mut["new"])
    try:
        import ast

        ast.parse(new)
    except SyntaxError as e:
        return dict(name=mut["name"], status="stale", detail=f"mutant does not parse: {e}")
    s2 = dict(sources)
    s2[mut["module"]] = new
    repo = Repo(s2, root)
    res = run_check(chk, repo)
    new_failed = _keyset(res) - set(map(tuple, base_failed))
    rules = sorted({r for r, _, _ in new_failed})
    kind = mut.get("kind", "break")
    if kind == "break":
        exp = mut["expect"] if isinstance(mut["expect"], (list, tuple)) else [mut["expect"]]
        if os.environ.get("VERIF_EXPECT_ONLY"):  # checker development: would these rules alone catch the edit?
            exp = os.environ["VERIF_EXPECT_ONLY"].split(",")
        if res.errors and mut.get("error_ok"):
            return dict(name=mut["name"], status="armed", detail="analysis-error (accepted)", rules=rules)
        if any(r in exp for r in rules):
            return dict(name=mut["name"], status="armed", rules=rules)
        return dict(name=mut["name"], status="MISSED", rules=rules, errors=res.errors[:3],
                    detail=f"expected one of {exp}")
    else:
        if new_failed or res.errors:
            return dict(name=mut["name"], status="FALSE-ALARM", rules=rules, errors=res.errors[:3],
                        detail="; ".join(f"{r}@{s}" for r, s, _ in sorted(new_failed))[:300])
        return dict(name=mut["name"], status="silent")


def run_selftest(chk, repo: Repo, base_res, jobs: int = 16) -> Dict[str, Any]:
    muts: List[Dict[str, Any]] = list(getattr(chk, "MUTANTS", []))
    sources = {n: m.src for n, m in repo.modules.items()}
    base_failed = sorted(_keyset(base_res))
    work = [(chk.__name__, sources, repo.root, m, base_failed) for m in muts]
    out = []
    if work:
        jobs = max(1, min(jobs, len(work), os.cpu_count() or 1))
        if jobs == 1:
            out = [_one(w) for w in work]
        else:
            with concurrent.futures.ProcessPoolExecutor(max_workers=jobs) as ex:
                out = list(ex.map(_one, work, chunksize=1))
    summary = {
        "mutants": len(out),
        "breaking_armed": sum(1 for o in out if o["status"] == "armed"),
        "benign_silent": sum(1 for o in out if o["status"] == "silent"),
        "missed": [o for o in out if o["status"] == "MISSED"],
        "false_alarms": [o for o in out if o["status"] == "FALSE-ALARM"],
        "stale": [o for o in out if o["status"] == "stale"],
        "armed_names": [o["name"] for o in out if o["status"] == "armed"],
        "silent_names": [o["name"] for o in out if o["status"] == "silent"],
    }
    for o in out:
        if o["status"] in ("MISSED", "FALSE-ALARM", "stale"):
            print(f"CHECKER-WARNING selftest {o['status']}: {o['name']} {o.get('detail', '')} "
                  f"{o.get('rules', '')} {o.get('errors', '')}")
    print(f"selftest: {summary['breaking_armed']} breaking edits detected, "
          f"{summary['benign_silent']} benign edits silent, {len(summary['missed'])} missed, "
          f"{len(summary['false_alarms'])} false alarms, {len(summary['stale'])} stale")
    return summary
