"""Static-analysis engine for the aldy verification checks (stdlib `ast` only)."""
