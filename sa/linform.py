"""
Linear normal forms of model expressions (idiom A of DESIGN.md).

lin(e) = sum_i coef_i * term_i + const, where
  term  = Var(container, keys, comp)        a model variable:  VCN[k], VKEEP[a][m][1], z
        | Sum(body, binders, filters)       quicksum / sum / Sum over a generator, or an accumulator
                                            (x = 0 ... x += t under loops and guards)
        | Table(name, key)                  read of a scatter table (T[k] += t at several sites)
        | Atom(text)                        anything else that carries variables opaquely (abssum(...))
  coef  = numeric constant times a product / quotient of opaque coefficient atoms (source text)

Names are expanded through their *reaching* definitions on the CFG: a unique plain assignment is
inlined; an initialisation followed by += / -= sites becomes a Sum per site with the loops and
guard facts that separate the site from the initialisation.
"""

import ast
from fractions import Fraction
from typing import Dict, List, Optional, Tuple

from .cfg import cfg_of
from .dataflow import reaching
from .loader import AnalysisError, FuncNode, call_name, walk_local

SUM_CALLS = {"quicksum", "sum", "Sum"}


class Coef:
    __slots__ = ("num", "mul", "div")

    def __init__(self, num=1, mul=(), div=()):
        self.num = Fraction(num) if not isinstance(num, float) else Fraction(num).limit_denominator(10 ** 9)
        self.mul = tuple(sorted(mul))
        self.div = tuple(sorted(div))
        # cancel common atoms
        m, d = list(self.mul), list(self.div)
        for x in list(m):
            if x in d:
                m.remove(x)
                d.remove(x)
        self.mul, self.div = tuple(m), tuple(d)

    def times(self, o: "Coef") -> "Coef":
        return Coef(self.num * o.num, self.mul + o.mul, self.div + o.div)

    def over(self, o: "Coef") -> "Coef":
        if o.num == 0:
            raise AnalysisError("division by literal zero in model expression")
        return Coef(self.num / o.num, self.mul + o.div, self.div + o.mul)

    def neg(self) -> "Coef":
        return Coef(-self.num, self.mul, self.div)

    def key(self):
        return (self.mul, self.div)

    def is_num(self):
        return not self.mul and not self.div

    def text(self):
        s = str(self.num) if self.num.denominator != 1 else str(self.num.numerator)
        if self.mul:
            s += "*" + "*".join(self.mul)
        if self.div:
            s += "/" + "/".join(self.div)
        return s

    def value(self, atoms: Dict[str, float]) -> float:
        v = float(self.num)
        for a in self.mul:
            v *= atoms[a]
        for a in self.div:
            v /= atoms[a]
        return v

    def __repr__(self):
        return self.text()


class Term:
    kind = "?"

    def text(self) -> str:
        raise NotImplementedError

    def __repr__(self):
        return self.text()


class Var(Term):
    kind = "var"

    def __init__(self, fam: str, keys: List[ast.AST], comp: Optional[int] = None, node=None):
        self.fam, self.keys, self.comp, self.node = fam, keys, comp, node

    def key_texts(self):
        return [ast.unparse(k) if isinstance(k, ast.AST) else str(k) for k in self.keys]

    def text(self):
        s = self.fam + "".join(f"[{k}]" for k in self.key_texts())
        return s + (f".{self.comp}" if self.comp is not None else "")


class Sum(Term):
    kind = "sum"

    def __init__(self, body: "Lin", binders: List[Tuple[ast.AST, ast.AST]], filters: List[Tuple[ast.AST, bool]], node=None):
        self.body, self.binders, self.filters, self.node = body, binders, filters, node

    def text(self):
        b = ", ".join(f"{ast.unparse(t)} in {ast.unparse(i)}" for t, i in self.binders)
        f = " & ".join(("" if p else "not ") + ast.unparse(t) for t, p in self.filters)
        return f"SUM[{self.body.text()} | {b}{' : ' + f if f else ''}]"


class Table(Term):
    kind = "table"

    def __init__(self, name: str, key: ast.AST, node=None):
        self.name, self.key, self.node = name, key, node

    def text(self):
        return f"TABLE {self.name}[{ast.unparse(self.key) if isinstance(self.key, ast.AST) else self.key}]"


class Elem(Term):
    """One element of a local list of model variables (for v in L)."""
    kind = "elem"

    def __init__(self, name: str, family: "Lin", node=None):
        self.name, self.family, self.node = name, family, node

    def text(self):
        return f"ELEM[{self.name} = {self.family.text()}]"


class Atom(Term):
    kind = "atom"

    def __init__(self, txt: str, node=None, tag: str = ""):
        self.txt, self.node, self.tag = txt, node, tag

    def text(self):
        return self.txt


class Lin:
    def __init__(self):
        self.terms: List[Tuple[Coef, Term]] = []
        self.consts: List[Coef] = []

    # -- algebra -----------------------------------------------------------------------------
    @staticmethod
    def const(c: Coef) -> "Lin":
        l = Lin()
        if c.num != 0:
            l.consts.append(c)
        return l

    @staticmethod
    def of(t: Term, c: Optional[Coef] = None) -> "Lin":
        l = Lin()
        l.terms.append((c or Coef(1), t))
        return l

    def plus(self, o: "Lin") -> "Lin":
        l = Lin()
        l.terms = self.terms + o.terms
        l.consts = self.consts + o.consts
        return l.simplified()

    def scaled(self, c: Coef) -> "Lin":
        l = Lin()
        l.terms = [(k.times(c), t) for k, t in self.terms]
        l.consts = [k.times(c) for k in self.consts]
        return l.simplified()

    def divided(self, c: Coef) -> "Lin":
        l = Lin()
        l.terms = [(k.over(c), t) for k, t in self.terms]
        l.consts = [k.over(c) for k in self.consts]
        return l.simplified()

    def neg(self) -> "Lin":
        return self.scaled(Coef(-1))

    def simplified(self) -> "Lin":
        acc: Dict[Tuple, List] = {}
        order = []
        for k, t in self.terms:
            key = (t.text(), k.key())
            if key not in acc:
                acc[key] = [Fraction(0), t, k]
                order.append(key)
            acc[key][0] += k.num
        l = Lin()
        for key in order:
            n, t, k = acc[key]
            if n != 0:
                l.terms.append((Coef(n, k.mul, k.div), t))
        cacc: Dict[Tuple, List] = {}
        for k in self.consts:
            cacc.setdefault(k.key(), [Fraction(0), k])[0] += k.num
        for key, (n, k) in cacc.items():
            if n != 0:
                l.consts.append(Coef(n, k.mul, k.div))
        return l

    def is_const(self) -> bool:
        return not self.terms

    def as_coef(self) -> Optional[Coef]:
        """The expression as a single coefficient (no variables, one monomial)."""
        if self.terms:
            return None
        if not self.consts:
            return Coef(0)
        if len(self.consts) == 1:
            return self.consts[0]
        return None

    def text(self) -> str:
        parts = sorted(f"{k.text()}*{t.text()}" for k, t in self.terms)
        parts += sorted(k.text() for k in self.consts)
        return " + ".join(parts) if parts else "0"

    def __repr__(self):
        return self.text()

    def var_terms(self, fam: Optional[str] = None):
        return [(k, t) for k, t in self.terms if t.kind == "var" and (fam is None or t.fam == fam)]

    def sum_terms(self):
        return [(k, t) for k, t in self.terms if t.kind == "sum"]

    def const_value(self, atoms: Optional[Dict[str, float]] = None) -> Optional[float]:
        try:
            return sum(k.value(atoms or {}) for k in self.consts)
        except KeyError:
            return None


class Families:
    """Model variable containers of one function, discovered from addVar sites."""

    def __init__(self, func):
        self.func = func
        self.containers: Dict[str, Dict] = {}  # python name -> info
        self.scalars: Dict[str, Dict] = {}
        self._scan()

    @staticmethod
    def addvar_calls(node):
        return [c for c in ast.walk(node) if isinstance(c, ast.Call) and isinstance(c.func, ast.Attribute)
                and c.func.attr == "addVar"]

    @staticmethod
    def info(call: ast.Call) -> Dict:
        kw = {k.arg: k.value for k in call.keywords if k.arg}
        name = kw.get("name")
        prefix = ""
        if isinstance(name, ast.JoinedStr):
            for v in name.values:
                if isinstance(v, ast.Constant):
                    prefix += str(v.value)
                else:
                    break
        elif isinstance(name, ast.Constant):
            prefix = str(name.value)
        vt = kw.get("vtype")
        return dict(call=call, prefix=prefix, name=name, vtype=(vt.value if isinstance(vt, ast.Constant) else None),
                    lb=kw.get("lb"), ub=kw.get("ub"))

    def _scan(self):
        lambdas = {}
        for n in walk_local(self.func):
            if isinstance(n, ast.Assign) and len(n.targets) == 1 and isinstance(n.targets[0], ast.Name) \
                    and isinstance(n.value, ast.Lambda) and self.addvar_calls(n.value):
                lambdas[n.targets[0].id] = self.info(self.addvar_calls(n.value)[0])
        self.lambdas = lambdas
        for n in walk_local(self.func):
            if isinstance(n, (ast.Assign, ast.AnnAssign)):
                tgt = n.targets[0] if isinstance(n, ast.Assign) else n.target
                val = n.value
                if val is None:
                    continue
                calls = self.addvar_calls(val) if not isinstance(val, ast.Lambda) else []
                wrapped = [c for c in ast.walk(val) if isinstance(c, ast.Call) and isinstance(c.func, ast.Name)
                           and c.func.id in lambdas]
                if isinstance(tgt, ast.Name):
                    if isinstance(val, (ast.DictComp, ast.Dict)) and calls:
                        infos = [self.info(c) for c in calls]
                        self.containers[tgt.id] = dict(site=n, infos=infos, comp=val)
                    elif isinstance(val, ast.Call) and (val in calls or val in wrapped):
                        self.scalars[tgt.id] = self.info(val) if val in calls else dict(lambdas[val.func.id], call=val)
                    elif isinstance(val, (ast.Dict, ast.DictComp)) and not calls:
                        pass
                elif isinstance(tgt, ast.Subscript) and isinstance(tgt.value, ast.Name) and isinstance(val, ast.Call) \
                        and (val in calls or val in wrapped):
                    nm = tgt.value.id
                    inf = self.info(val) if val in calls else dict(lambdas[val.func.id], call=val)
                    self.containers.setdefault(nm, dict(site=n, infos=[], comp=None))["infos"].append(inf)
                # chained:  v = VPHASE[ai, ri] = addVar(...)
            if isinstance(n, ast.Assign) and len(n.targets) > 1 and isinstance(n.value, ast.Call):
                val = n.value
                is_var = val in self.addvar_calls(val) or (isinstance(val.func, ast.Name) and val.func.id in lambdas)
                if is_var:
                    inf = self.info(val) if isinstance(val.func, ast.Attribute) else self._lambda_info(lambdas, val)
                    for t in n.targets:
                        if isinstance(t, ast.Name):
                            self.scalars[t.id] = inf
                        elif isinstance(t, ast.Subscript) and isinstance(t.value, ast.Name):
                            self.containers.setdefault(t.value.id, dict(site=n, infos=[], comp=None))["infos"].append(inf)
        # empty dict declarations later filled by subscript stores:  VERR, VERR_GENE = {}, {}
        for n in walk_local(self.func):
            if isinstance(n, ast.Assign) and isinstance(n.targets[0], ast.Tuple) and isinstance(n.value, ast.Tuple):
                pass

    @staticmethod
    def _lambda_info(lambdas, call):
        """addVar wrapped in a local lambda: the name template is the call's first argument."""
        inf = dict(lambdas[call.func.id], call=call)
        if call.args:
            a = call.args[0]
            pre = ""
            if isinstance(a, ast.JoinedStr):
                for v in a.values:
                    if isinstance(v, ast.Constant):
                        pre += str(v.value)
                    else:
                        break
            elif isinstance(a, ast.Constant):
                pre = str(a.value)
            inf["prefix"], inf["name"] = pre, a
        return inf

    def is_container(self, name: str) -> bool:
        return name in self.containers

    def is_scalar(self, name: str) -> bool:
        return name in self.scalars

    def prefix_of(self, name: str) -> List[str]:
        if name in self.containers:
            return [i["prefix"] for i in self.containers[name]["infos"]]
        if name in self.scalars:
            return [self.scalars[name]["prefix"]]
        return []


class Linearizer:
    def __init__(self, func, families: Optional[Families] = None, tables: Optional[List[str]] = None):
        self.func = func
        self.cfg = cfg_of(func)
        self.fams = families or Families(func)
        self.tables = set(tables or [])
        self._stack = []

    # ------------------------------------------------------------------------------------------
    def coef_atom(self, e) -> Lin:
        return Lin.const(Coef(1, (ast.unparse(e),)))

    def lin(self, e, at=None) -> Lin:
        at = at if at is not None else e
        if isinstance(e, ast.Constant) and isinstance(e.value, (int, float)) and not isinstance(e.value, bool):
            return Lin.const(Coef(e.value))
        if isinstance(e, ast.UnaryOp) and isinstance(e.op, ast.USub):
            return self.lin(e.operand, at).neg()
        if isinstance(e, ast.UnaryOp) and isinstance(e.op, ast.UAdd):
            return self.lin(e.operand, at)
        if isinstance(e, ast.BinOp):
            if isinstance(e.op, ast.Add):
                return self.lin(e.left, at).plus(self.lin(e.right, at))
            if isinstance(e.op, ast.Sub):
                return self.lin(e.left, at).plus(self.lin(e.right, at).neg())
            if isinstance(e.op, ast.Mult):
                l, r = self.lin(e.left, at), self.lin(e.right, at)
                lc, rc = l.as_coef(), r.as_coef()
                if rc is not None:
                    return l.scaled(rc)
                if lc is not None:
                    return r.scaled(lc)
                if l.is_const() and not r.is_const():
                    return self._scale_by_const_sum(r, e.left)
                if r.is_const() and not l.is_const():
                    return self._scale_by_const_sum(l, e.right)
                if l.is_const() and r.is_const():
                    return self.coef_atom(e)
                return Lin.of(Atom(ast.unparse(e), e, "nonlinear"))
            if isinstance(e.op, ast.Div):
                l, r = self.lin(e.left, at), self.lin(e.right, at)
                rc = r.as_coef()
                if rc is not None and rc.num != 0:
                    return l.divided(rc)
                if r.is_const():
                    return l.divided(Coef(1, (f"({ast.unparse(e.right)})",)))
                return Lin.of(Atom(ast.unparse(e), e, "nonlinear"))
            return self.coef_atom(e)
        if isinstance(e, ast.Name):
            return self.name(e, at)
        if isinstance(e, ast.Subscript):
            v = self.var_of_subscript(e, at)
            if v is not None:
                return v
            return self.coef_atom(e)
        if isinstance(e, ast.Call):
            return self.call(e, at)
        if isinstance(e, ast.IfExp):
            a, b = self.lin(e.body, at), self.lin(e.orelse, at)
            if a.is_const() and b.is_const():
                return self.coef_atom(e)
            return Lin.of(Atom(ast.unparse(e), e, "conditional"))
        if isinstance(e, (ast.Attribute,)):
            return self.coef_atom(e)
        if isinstance(e, ast.GeneratorExp):
            return self.sum_of_comp(e, at)
        return self.coef_atom(e)

    def _scale_by_const_sum(self, l: Lin, factor_expr) -> Lin:
        return l.scaled(Coef(1, (f"({ast.unparse(factor_expr)})",)))

    # -- variables --------------------------------------------------------------------------------
    def var_of_subscript(self, e: ast.Subscript, at) -> Optional[Lin]:
        keys = []
        n = e
        while isinstance(n, ast.Subscript):
            keys.append(n.slice)
            n = n.value
        keys.reverse()
        if isinstance(n, ast.Name):
            if self.fams.is_container(n.id):
                comp = None
                if len(keys) > 1 and isinstance(keys[-1], ast.Constant) and isinstance(keys[-1].value, int):
                    comp = keys[-1].value
                    keys = keys[:-1]
                return Lin.of(Var(n.id, keys, comp, e))
            if n.id in self.tables:
                return Lin.of(Table(n.id, keys[0], e))
            # element of something bound from a family (v = VNEW[a][m]; v[0])
            base = self.name(n, at, as_var_only=True)
            if base is not None and len(base.terms) == 1 and base.terms[0][1].kind == "var" and not base.consts:
                k, t = base.terms[0]
                extra = keys
                comp = t.comp
                ks = list(t.keys)
                for x in extra:
                    if comp is None and isinstance(x, ast.Constant) and isinstance(x.value, int):
                        comp = x.value
                    else:
                        ks.append(x)
                return Lin.of(Var(t.fam, ks, comp, e), k)
        return None

    def binder_var(self, name: str, at) -> Optional[Lin]:
        """`name` bound by iteration over a family container: for k, v in F.items(); for v in F.values(); ..."""
        IN, defs = reaching(self.cfg, name)
        ds = [defs[d] for d in IN[self.cfg.node_of(at)]]
        srcs = []
        for d in ds:
            if isinstance(d, ast.For):
                srcs.append((d.target, d.iter))
        # comprehension binders between `at` and its statement
        p = getattr(at, "_parent", None)
        ch = at
        while p is not None and not isinstance(p, ast.stmt):
            if isinstance(p, (ast.GeneratorExp, ast.ListComp, ast.SetComp, ast.DictComp)):
                for g in p.generators:
                    if any(isinstance(x, ast.Name) and x.id == name for x in ast.walk(g.target)):
                        srcs = [(g.target, g.iter)]
            ch, p = p, getattr(p, "_parent", None)
        for tgt, it in srcs:
            r = self._var_from_binding(name, tgt, it)
            if r is not None:
                return r
            r = self._elem_of_list(name, tgt, it, at)
            if r is not None:
                return r
        return None

    def _elem_of_list(self, name, tgt, it, at) -> Optional[Lin]:
        """for v in L / for i, v in enumerate(L) where L is a local list of model variables."""
        lst = None
        if isinstance(it, ast.Call) and call_name(it) == "enumerate" and it.args and isinstance(tgt, ast.Tuple) \
                and len(tgt.elts) == 2 and isinstance(tgt.elts[1], ast.Name) and tgt.elts[1].id == name:
            lst = it.args[0]
        elif isinstance(tgt, ast.Name) and tgt.id == name:
            lst = it
        if isinstance(lst, ast.Name) and lst.id not in self._stack:
            total = self.list_name(lst, it, lst)
            if total.terms and all(t.kind in ("sum", "var") for _, t in total.terms):
                return Lin.of(Elem(lst.id, total, tgt))
        return None

    def _var_from_binding(self, name, tgt, it) -> Optional[Lin]:
        if isinstance(it, ast.Call) and call_name(it) in ("sorted", "natsorted", "list", "reversed") and it.args:
            it = it.args[0]
        # scatter table:  for k, expr in T.items()
        if isinstance(it, ast.Call) and isinstance(it.func, ast.Attribute) and it.func.attr == "items" \
                and isinstance(it.func.value, ast.Name) and it.func.value.id in self.tables \
                and isinstance(tgt, ast.Tuple) and len(tgt.elts) == 2 and isinstance(tgt.elts[1], ast.Name) \
                and tgt.elts[1].id == name:
            return Lin.of(Table(it.func.value.id, tgt.elts[0], tgt))
        # F.items()  ->  (key, value)
        if isinstance(it, ast.Call) and isinstance(it.func, ast.Attribute) and it.func.attr in ("items", "values"):
            base = it.func.value
            keys0 = []
            b = base
            while isinstance(b, ast.Subscript):
                keys0.append(b.slice)
                b = b.value
            keys0.reverse()
            if isinstance(b, ast.Name) and not self.fams.is_container(b.id):
                outer = self.binder_var(b.id, it)
                if outer is not None and len(outer.terms) == 1 and outer.terms[0][1].kind == "var":
                    ot = outer.terms[0][1]
                    if ot.comp is None:
                        keys0 = list(ot.keys) + keys0
                        b = ast.Name(id=ot.fam, ctx=ast.Load())
            if isinstance(b, ast.Name) and self.fams.is_container(b.id):
                if it.func.attr == "items" and isinstance(tgt, ast.Tuple) and len(tgt.elts) == 2:
                    k, v = tgt.elts
                    if isinstance(v, ast.Name) and v.id == name:
                        return Lin.of(Var(b.id, keys0 + [k], None, tgt))
                    if isinstance(v, ast.Tuple):
                        for i, x in enumerate(v.elts):
                            if isinstance(x, ast.Name) and x.id == name:
                                return Lin.of(Var(b.id, keys0 + [k], i, tgt))
                if it.func.attr == "values" and isinstance(tgt, ast.Name) and tgt.id == name:
                    return Lin.of(Var(b.id, keys0 + [ast.Constant(value="*")], None, tgt))
        return None

    def name(self, e: ast.Name, at, as_var_only=False) -> Optional[Lin]:
        nm = e.id
        bv = self.binder_var(nm, at)
        if bv is not None:
            return bv
        if self._comp_bound(nm, at):
            return None if as_var_only else self.coef_atom(e)
        if self.fams.is_scalar(nm) and self._reaches_only_addvar(nm, at):
            return Lin.of(Var(nm, [], None, e))
        if as_var_only:
            # value aliases:  v = VNEW[a][m]
            d = self._unique_def(nm, at)
            if d is not None and isinstance(d.value, ast.Subscript):
                return self.var_of_subscript(d.value, d)
            return None
        if nm in self._stack or len(self._stack) > 12:
            return self.coef_atom(e)
        IN, defs = reaching(self.cfg, nm)
        try:
            node_id = self.cfg.node_of(at)
        except AnalysisError:
            return self.coef_atom(e)
        dset = set(IN[node_id])
        work = list(dset)
        while work:  # an augmented assignment also depends on the definitions reaching it
            d = work.pop()
            if isinstance(defs[d], ast.AugAssign):
                for d2 in IN[d]:
                    if d2 not in dset:
                        dset.add(d2)
                        work.append(d2)
        dnodes = sorted(dset)
        ds = [(d, defs[d]) for d in dnodes]
        if not ds:
            return self.coef_atom(e)
        self._stack.append(nm)
        try:
            plain = [(i, d) for i, d in ds if isinstance(d, (ast.Assign, ast.AnnAssign))]
            augs = [(i, d) for i, d in ds if isinstance(d, ast.AugAssign)]
            others = [(i, d) for i, d in ds if not isinstance(d, (ast.Assign, ast.AnnAssign, ast.AugAssign))]
            if others:
                return self.coef_atom(e)
            if len(plain) == 1 and not augs:
                v = self._assigned_value(plain[0][1], nm)
                if v is None:
                    return self.coef_atom(e)
                return self.lin(v, plain[0][1])
            if len(plain) >= 1 and augs:
                return self._accumulator(nm, plain, augs, at)
            return self.coef_atom(e)
        finally:
            self._stack.pop()

    @staticmethod
    def _comp_bound(nm, at) -> bool:
        p = getattr(at, "_parent", None)
        while p is not None and not isinstance(p, ast.stmt):
            if isinstance(p, (ast.GeneratorExp, ast.ListComp, ast.SetComp, ast.DictComp)):
                for g in p.generators:
                    if any(isinstance(x, ast.Name) and x.id == nm for x in ast.walk(g.target)):
                        return True
            p = getattr(p, "_parent", None)
        return False

    def _reaches_only_addvar(self, nm, at) -> bool:
        IN, defs = reaching(self.cfg, nm)
        try:
            ds = [defs[d] for d in IN[self.cfg.node_of(at)]]
        except AnalysisError:
            return True
        if not ds:
            return True
        for d in ds:
            v = d.value if isinstance(d, (ast.Assign, ast.AnnAssign)) else None
            if not (isinstance(v, ast.Call) and (call_name(v).endswith("addVar") or
                                                  (isinstance(v.func, ast.Name) and v.func.id in self.fams.lambdas))):
                return False
        return True

    def _unique_def(self, nm, at):
        IN, defs = reaching(self.cfg, nm)
        ds = [defs[d] for d in IN[self.cfg.node_of(at)]]
        if len(ds) == 1 and isinstance(ds[0], ast.Assign) and len(ds[0].targets) == 1 and isinstance(ds[0].targets[0], ast.Name):
            return ds[0]
        return None

    @staticmethod
    def _assigned_value(d, nm):
        if isinstance(d, ast.AnnAssign):
            return d.value
        for t in d.targets:
            if isinstance(t, ast.Name) and t.id == nm:
                return d.value
            if isinstance(t, ast.Tuple) and isinstance(d.value, ast.Tuple) and len(t.elts) == len(d.value.elts):
                for x, v in zip(t.elts, d.value.elts):
                    if isinstance(x, ast.Name) and x.id == nm:
                        return v
        return None

    def _accumulator(self, nm, plain, augs, at) -> Lin:
        """x = init ; ... x += t / x -= t  (under loops and guards)  ->  init + sum of Sum terms."""
        # the initialisation that dominates the use
        use = self.cfg.node_of(at)
        inits = [(i, d) for i, d in plain if self.cfg.dominates(i, use)]
        if not inits:
            inits = plain
        i0, d0 = inits[-1]
        v0 = self._assigned_value(d0, nm)
        total = self.lin(v0, d0) if v0 is not None else Lin()
        if total.is_const() and all(self.lin(d.value, d).is_const() for _, d in augs):
            return Lin.const(Coef(1, (nm,)))  # a running counter / pure number: coefficient atom
        base_facts = {(id(t), p) for t, p in self.cfg.guards(i0)}
        for i, d in augs:
            if not isinstance(d.op, (ast.Add, ast.Sub)):
                return Lin.of(Atom(nm, None, "accumulator with non-additive update"))
            body = self.lin(d.value, d)
            if isinstance(d.op, ast.Sub):
                body = body.neg()
            binders, filters = [], []
            for t, p in self.cfg.guards(i):
                if (id(t), p) in base_facts:
                    continue
                if isinstance(t, ast.For):
                    if p == "iter":
                        binders.append((t.target, t.iter))
                else:
                    filters.append((t, p))
            if binders or filters:
                total = total.plus(Lin.of(Sum(body, binders, filters, d)))
            else:
                total = total.plus(body)
        return total

    # -- calls ----------------------------------------------------------------------------------------
    def call(self, c: ast.Call, at) -> Lin:
        nm = call_name(c)
        last = nm.split(".")[-1]
        if last in SUM_CALLS and c.args:
            r = self.sum_arg(c.args[0], at, c)
            if len(r.terms) == 1 and r.terms[0][1].kind == "atom" and getattr(r.terms[0][1], "tag", "") == "opaque-sum" \
                    and not any(isinstance(x, ast.Name) and (self.fams.is_container(x.id) or self.fams.is_scalar(x.id))
                                for x in ast.walk(c.args[0])):
                return self.coef_atom(c)  # a sum of plain numbers (no model variable inside)
            return r
        if last == "prod" and len(c.args) >= 1:
            return self.lin(c.args[0], at)
        if last == "abssum":
            return Lin.of(Atom(ast.unparse(c), c, "abssum"))
        if last == "len" or last in ("max", "min", "abs", "float", "int"):
            return self.coef_atom(c)
        if isinstance(c.func, ast.Name) and c.func.id in getattr(self.fams, "lambdas", {}):
            return Lin.of(Var(f"<{self.fams.lambdas[c.func.id]['prefix']}>", [], None, c))
        if last == "addVar":
            return Lin.of(Var(f"<{Families.info(c)['prefix']}>", [], None, c))
        return self.coef_atom(c)

    def sum_of_comp(self, g, at, node=None) -> Lin:
        body = self.lin(g.elt, g.elt)
        binders = [(x.target, x.iter) for x in g.generators]
        filters = [(t, True) for x in g.generators for t in x.ifs]
        if body.is_const() and not body.consts:
            return Lin()
        return Lin.of(Sum(body, binders, filters, node or g))

    def sum_arg(self, a, at, node) -> Lin:
        if isinstance(a, (ast.GeneratorExp, ast.ListComp)):
            return self.sum_of_comp(a, at, node)
        if isinstance(a, (ast.List, ast.Tuple)):
            total = Lin()
            for x in a.elts:
                total = total.plus(self.lin(x, at))
            return total
        if isinstance(a, ast.BinOp) and isinstance(a.op, ast.Add):
            return self.sum_arg(a.left, at, node).plus(self.sum_arg(a.right, at, node))
        if isinstance(a, ast.Call) and isinstance(a.func, ast.Attribute) and a.func.attr == "values":
            b = a.func.value
            if isinstance(b, ast.Name) and self.fams.is_container(b.id):
                k = ast.Name(id="_k", ctx=ast.Load())
                return Lin.of(Sum(Lin.of(Var(b.id, [k], None, a)), [(k, b)], [], node))
        if isinstance(a, ast.Name):
            return self.list_name(a, at, node)
        return Lin.of(Atom(f"sum({ast.unparse(a)})", a, "opaque-sum"))

    def list_name(self, a: ast.Name, at, node) -> Lin:
        """Sum over a list-valued local: comprehension, concatenation, or append sites."""
        nm = a.id
        if nm in self._stack:
            return Lin.of(Atom(f"sum({nm})", a, "opaque-sum"))
        IN, defs = reaching(self.cfg, nm)
        dset = set(IN[self.cfg.node_of(at)])
        work = list(dset)
        while work:
            d = work.pop()
            if isinstance(defs[d], ast.AugAssign):
                for d2 in IN[d]:
                    if d2 not in dset:
                        dset.add(d2)
                        work.append(d2)
        ds = [(d, defs[d]) for d in sorted(dset)]
        self._stack.append(nm)
        try:
            total = Lin()
            ok = False
            inits = []
            for i, d in ds:
                if isinstance(d, ast.Assign):
                    v = self._assigned_value(d, nm)
                    if v is None:
                        return Lin.of(Atom(f"sum({nm})", a, "opaque-sum"))
                    if isinstance(v, ast.List) and not v.elts:
                        inits.append((i, d))
                        ok = True
                        continue
                    total = total.plus(self.sum_arg(v, d, node))
                    ok = True
                elif isinstance(d, ast.AugAssign) and isinstance(d.op, ast.Add):
                    total = total.plus(self.sum_arg(d.value, d, node))
                    ok = True
                else:
                    return Lin.of(Atom(f"sum({nm})", a, "opaque-sum"))
            # append sites
            base_facts = set()
            if inits:
                base_facts = {(id(t), p) for t, p in self.cfg.guards(inits[-1][0])}
            for n in walk_local(self.func):
                if isinstance(n, ast.Call) and isinstance(n.func, ast.Attribute) and n.func.attr == "append" \
                        and nm in _names_in_target(n.func.value) and n.args:
                    try:
                        site = self.cfg.node_of(n)
                    except AnalysisError:
                        continue
                    # the append must belong to a definition that reaches the use
                    body = self.lin(n.args[0], n)
                    binders, filters = [], []
                    for t, p in self.cfg.guards(site):
                        if (id(t), p) in base_facts:
                            continue
                        if isinstance(t, ast.For):
                            if p == "iter":
                                binders.append((t.target, t.iter))
                        else:
                            filters.append((t, p))
                    sel = _append_selector(n.func.value, nm)
                    if sel is not None:
                        filters.append(sel)
                    total = total.plus(Lin.of(Sum(body, binders, filters, n)) if (binders or filters) else body)
                    ok = True
            if not ok:
                return Lin.of(Atom(f"sum({nm})", a, "opaque-sum"))
            return total
        finally:
            self._stack.pop()


def _names_in_target(e):
    if isinstance(e, ast.Name):
        return [e.id]
    if isinstance(e, ast.IfExp):
        return _names_in_target(e.body) + _names_in_target(e.orelse)
    return []


def _append_selector(e, nm):
    """(pos if cond else neg).append(x): the condition under which the append goes to `nm`."""
    if isinstance(e, ast.IfExp):
        if isinstance(e.body, ast.Name) and e.body.id == nm:
            return (e.test, True)
        if isinstance(e.orelse, ast.Name) and e.orelse.id == nm:
            return (e.test, False)
    return None
