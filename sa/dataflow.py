"""
Reaching definitions of local names on the statement CFG.
"""

import ast
from typing import Dict, List, Set, Tuple

from .cfg import CFG
from .loader import FuncNode


def _targets(node) -> List[ast.AST]:
    if isinstance(node, ast.Assign):
        return list(node.targets)
    if isinstance(node, (ast.AugAssign, ast.AnnAssign)):
        return [node.target]
    return []


def _names_stored(t) -> Set[str]:
    out = set()
    for n in ast.walk(t):
        if isinstance(n, ast.Name) and isinstance(n.ctx, (ast.Store, ast.Del)):
            out.add(n.id)
    return out


def def_sites(cfg: CFG, name: str) -> Dict[int, ast.AST]:
    """CFG node id -> AST node that (re)binds `name` there. Parameters bind at entry."""
    out: Dict[int, ast.AST] = {}
    a = cfg.func.args
    params = [x.arg for x in a.posonlyargs + a.args + a.kwonlyargs]
    if a.vararg:
        params.append(a.vararg.arg)
    if a.kwarg:
        params.append(a.kwarg.arg)
    if name in params:
        out[cfg.entry] = cfg.func
    for n in cfg.nodes:
        if n.kind == "stmt":
            st = n.ast
            for t in _targets(st):
                if name in _names_stored(t):
                    out[n.id] = st
            if isinstance(st, (ast.FunctionDef, ast.AsyncFunctionDef, ast.ClassDef)) and st.name == name:
                out[n.id] = st
            if isinstance(st, (ast.Import, ast.ImportFrom)):
                for al in st.names:
                    if (al.asname or al.name.split(".")[0]) == name:
                        out[n.id] = st
            for sub in ast.walk(st) if not isinstance(st, FuncNode + (ast.ClassDef,)) else []:
                if isinstance(sub, ast.NamedExpr) and isinstance(sub.target, ast.Name) and sub.target.id == name:
                    out[n.id] = st
        elif n.kind == "branch" and n.label == "iter":
            if name in _names_stored(n.ast.target):
                out[n.id] = n.ast
        elif n.kind == "with":
            for it in n.ast.items:
                if it.optional_vars is not None and name in _names_stored(it.optional_vars):
                    out[n.id] = n.ast
        elif n.kind == "handler":
            if n.ast.name == name:
                out[n.id] = n.ast
    return out


def reaching(cfg: CFG, name: str) -> Tuple[Dict[int, Set[int]], Dict[int, ast.AST]]:
    """(IN sets: node -> def-node ids reaching its entry, def sites)."""
    cache = cfg.__dict__.setdefault("_reach_cache", {})
    if name in cache:
        return cache[name]
    defs = def_sites(cfg, name)
    IN: Dict[int, Set[int]] = {n.id: set() for n in cfg.nodes}
    OUT: Dict[int, Set[int]] = {n.id: set() for n in cfg.nodes}
    work = [cfg.entry]
    if cfg.entry in defs:
        OUT[cfg.entry] = {cfg.entry}
    seen_once = set()
    while work:
        x = work.pop()
        node = cfg.nodes[x]
        inn = set()
        for p in node.pred:
            inn |= OUT[p]
        out = {x} if x in defs else set(inn)
        if x in defs and isinstance(defs[x], ast.AugAssign):
            out = {x}
        if inn != IN[x] or out != OUT[x] or x not in seen_once:
            seen_once.add(x)
            IN[x], OUT[x] = inn, out
            work.extend(node.succ)
    cache[name] = (IN, defs)
    return IN, defs


def defs_reaching_use(cfg: CFG, use_node: ast.AST, name: str) -> Set[int]:
    IN, defs = reaching(cfg, name)
    return IN[cfg.node_of(use_node)]
