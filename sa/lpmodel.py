"""
A recording stand-in for the external MILP library (the ortools `Solver` object behind aldy.lpinterface.CBC).

The wrapper class of /repo (lpinterface.CBC with the methods it inherits from lpinterface.Gurobi: abssum, prod,
solutions, ...) is lifted into the folding language as it is; only the library object it drives is replaced.  The
stand-in records variables, constraints and the objective as exact linear forms, and `Solve()` answers by exhaustive
enumeration of the integer variables (the sample instances are small) with the continuous variables eliminated one
at a time -- no solver is called and nothing of /repo is executed by Python.

What the checks get from it:
  * the concrete model a builder routine of /repo produces for a sample instance (variables by name, constraint
    set, objective), to be compared point by point with an independently written reference model, and
  * the solutions the routine reads back through the wrapper's own `solutions()` loop.
"""

import collections
import itertools
import math
from typing import Dict, List, Optional, Tuple

from .fold import ClassModel, Obj, Raised, Unfoldable

INF = float("inf")
EPS = 1e-9


class LVar:
    _fold_ok = True
    __slots__ = ("_name", "_lb", "_ub", "vtype", "value", "idx")

    def __init__(self, name, lb, ub, vtype, idx):
        self._name, self._lb, self._ub, self.vtype, self.value, self.idx = name, lb, ub, vtype, None, idx

    # ortools variable interface used by the wrapper
    def name(self):
        return self._name

    def lb(self):
        return self._lb

    def ub(self):
        return self._ub

    def integer(self):
        return self.vtype in ("B", "I")

    def solution_value(self):
        if self.value is None:
            raise ValueError("variable read before a successful solve")
        return self.value

    def __repr__(self):
        return self._name

    # arithmetic
    def _e(self):
        return LExpr({self: 1.0}, 0.0)

    def __add__(self, o):
        return self._e() + o

    __radd__ = __add__

    def __sub__(self, o):
        return self._e() - o

    def __rsub__(self, o):
        return (-1) * self._e() + o

    def __mul__(self, o):
        return self._e() * o

    __rmul__ = __mul__

    def __truediv__(self, o):
        return self._e() / o

    def __neg__(self):
        return self._e() * -1

    def __le__(self, o):
        return self._e() <= o

    def __ge__(self, o):
        return self._e() >= o

    def __eq__(self, o):
        return self is o

    def __hash__(self):
        return id(self)


def _lin(x):
    if isinstance(x, LExpr):
        return x
    if isinstance(x, LVar):
        return x._e()
    if isinstance(x, bool):
        return LExpr({}, float(x))
    if isinstance(x, (int, float)):
        return LExpr({}, float(x))
    raise TypeError(f"not a linear term: {type(x).__name__}")


class LExpr:
    _fold_ok = True
    __slots__ = ("terms", "const")

    def __init__(self, terms, const):
        self.terms, self.const = terms, const

    def __add__(self, o):
        o = _lin(o)
        t = dict(self.terms)
        for v, c in o.terms.items():
            t[v] = t.get(v, 0.0) + c
        return LExpr(t, self.const + o.const)

    __radd__ = __add__

    def __sub__(self, o):
        return self + _lin(o) * -1

    def __rsub__(self, o):
        return _lin(o) - self

    def __mul__(self, o):
        if isinstance(o, (LVar, LExpr)):
            o = _lin(o)
            if o.terms and self.terms:
                raise TypeError("product of two variable terms is not linear")
            if not o.terms:
                return self * o.const
            return o * self.const
        if isinstance(o, (int, float)):
            return LExpr({v: c * o for v, c in self.terms.items()}, self.const * o)
        raise TypeError("not a scalar")

    __rmul__ = __mul__

    def __truediv__(self, o):
        if isinstance(o, (int, float)):
            return self * (1.0 / o)
        raise TypeError("division by a non-scalar")

    def __neg__(self):
        return self * -1

    def __le__(self, o):
        return LCons(self - _lin(o), "<=")

    def __ge__(self, o):
        return LCons(self - _lin(o), ">=")

    def __eq__(self, o):
        return LCons(self - _lin(o), "==")

    def __hash__(self):
        return id(self)

    def value(self, val):
        return self.const + sum(c * val[v] for v, c in self.terms.items())

    def __repr__(self):
        return " + ".join(f"{c:g}*{v}" for v, c in self.terms.items() if c) + (f" + {self.const:g}" if self.const else "")


class LCons:
    _fold_ok = True
    __slots__ = ("expr", "sense", "name")

    def __init__(self, expr, sense, name=None):
        self.expr, self.sense, self.name = expr, sense, name

    def holds(self, val, eps=1e-7):
        x = self.expr.value(val)
        return x <= eps if self.sense == "<=" else x >= -eps if self.sense == ">=" else abs(x) <= eps

    def __bool__(self):
        raise TypeError("a constraint has no truth value")

    def __repr__(self):
        return f"{self.name or ''}: {self.expr} {self.sense} 0"


class Library:
    """Stands for `ortools.linear_solver.pywraplp.Solver` (one instance = one model)."""

    _fold_ok = True
    OPTIMAL, FEASIBLE, INFEASIBLE, UNBOUNDED, ABNORMAL, NOT_SOLVED = 0, 1, 2, 3, 4, 6

    def __init__(self, name="model", int_limit=22):
        self.name_ = name
        self.vars: List[LVar] = []
        self.cons: List[LCons] = []
        self.objective_: Optional[LExpr] = None
        self.sense_ = "min"
        self.best = None
        self.int_limit = int_limit
        self._table = None      # [(objective, integer assignment tuple, full valuation)] of the feasible points, sorted
        self._seen_cons = 0
        self.solves = 0
        self.force_status = None  # scenario: the library reports this status for the (feasible) optimum it found, e.g. FEASIBLE
        self.built = None       # number of constraints when the model was first solved (later ones are cuts of a read-out loop)

    def infinity(self):
        return INF

    def _add(self, name, lb, ub, vt):
        v = LVar(name, lb, ub, vt, len(self.vars))
        self.vars.append(v)
        self._table = None
        return v

    def BoolVar(self, name):
        return self._add(name, 0, 1, "B")

    def IntVar(self, lb, ub, name):
        return self._add(name, lb, ub, "I")

    def NumVar(self, lb, ub, name):
        return self._add(name, lb, ub, "C")

    def Add(self, cons, name=None):
        if not isinstance(cons, LCons):
            raise TypeError("Add() expects a constraint")
        cons.name = name
        self.cons.append(cons)
        return cons

    def Sum(self, it):
        out = LExpr({}, 0.0)
        for x in it:
            out = out + x
        return out

    def Minimize(self, e):
        self.objective_, self.sense_ = _lin(e), "min"
        self._table = None

    def Maximize(self, e):
        self.objective_, self.sense_ = _lin(e), "max"
        self._table = None

    def variables(self):
        return list(self.vars)

    def VerifySolution(self, tol, log):
        return True

    def Objective(self):
        return Obj(Value=lambda: self.best)

    def ExportModelAsLpFormat(self, obfuscate):
        return "\n".join(repr(c) for c in self.cons)

    # -- exhaustive evaluation ---------------------------------------------------------------------------------------
    def integer_vars(self):
        return [v for v in self.vars if v.vtype in ("B", "I")]

    def continuous_vars(self):
        return [v for v in self.vars if v.vtype == "C"]

    def _domains(self):
        iv = self.integer_vars()
        doms = []
        size = 1
        for v in iv:
            if v.vtype == "B":
                d = (0, 1)
            else:
                if v._lb in (-INF,) or v._ub in (INF,) or v._ub - v._lb > 8:
                    raise Unfoldable(f"integer variable {v._name} has no small finite range")
                d = tuple(range(int(math.ceil(v._lb)), int(math.floor(v._ub)) + 1))
            doms.append(d)
            size *= len(d)
        return iv, doms

    def complete(self, val, cons=None, objective=None):
        """Best completion of the continuous variables for fixed integer values. Fast path: a variable whose value is forced
        (its bounds from the already evaluable constraints meet in a point) or all of whose constraints are evaluable is fixed
        at once; whatever remains coupled is a small linear programme solved by the analysis' own dense two-phase simplex
        (Bland's rule). Returns the objective value and fills `val`, or None when there is no feasible completion."""
        cons = self.cons if cons is None else cons
        objective = self.objective_ if objective is None else objective
        cv = self.continuous_vars()
        sign = 1.0 if self.sense_ == "min" else -1.0
        key = (id(cons), len(cons), len(self.vars))
        cache = self.__dict__.setdefault("_cc", {})
        if cache.get("key") != key:
            by_var = collections.defaultdict(list)
            pure_int = []
            for c in cons:
                cvs = [v for v, k in c.expr.terms.items() if k and v.vtype == "C"]
                if not cvs:
                    pure_int.append(c)
                for v in cvs:
                    by_var[v].append((c, cvs))
            cache.clear()
            cache.update(key=key, by_var=by_var, pure_int=pure_int)
        by_var, pure_int = cache["by_var"], cache["pure_int"]
        for c in pure_int:
            if not c.holds(val):
                return None
        open_ = list(cv)
        closed = set()
        progress = True
        while open_ and progress:
            progress = False
            for v in list(open_):
                lo, hi = v._lb, v._ub
                all_ready = True
                for c, cvs in by_var.get(v, ()):
                    if any(u is not v and u not in closed for u in cvs):
                        all_ready = False
                        continue
                    a = c.expr.terms[v]
                    rest = c.expr.const + sum(k * val[u] for u, k in c.expr.terms.items() if u is not v and k)
                    bound = -rest / a
                    for s_ in ((c.sense,) if c.sense != "==" else ("<=", ">=")):
                        if (s_ == "<=") == (a > 0):
                            hi = min(hi, bound)
                        else:
                            lo = max(lo, bound)
                if lo > hi + 1e-7:
                    return None
                if abs(hi - lo) <= 1e-9:
                    x = (lo + hi) / 2.0
                elif all_ready:
                    coef = sign * (objective.terms.get(v, 0.0) if objective is not None else 0.0)
                    if coef > 0:
                        x = lo
                    elif coef < 0:
                        x = hi
                    else:
                        x = 0.0 if lo <= 0.0 <= hi else (lo if lo > -INF else hi)
                    if x in (INF, -INF):
                        raise Raised("ModelUnbounded")
                else:
                    continue
                val[v] = x
                closed.add(v)
                open_.remove(v)
                progress = True
        if open_:
            rows = []
            seen = set()
            for v in open_:
                for c, cvs in by_var.get(v, ()):
                    if id(c) in seen:
                        continue
                    seen.add(id(c))
                    coefs = [c.expr.terms.get(u, 0.0) for u in open_]
                    rest = c.expr.const + sum(k * val[u] for u, k in c.expr.terms.items() if u not in open_ and k)
                    rows.append((coefs, c.sense, -rest))
            cost = [sign * (objective.terms.get(v, 0.0) if objective is not None else 0.0) for v in open_]
            sol = _simplex(cost, rows, [(v._lb, v._ub) for v in open_])
            if sol is None:
                return None
            if sol == "unbounded":
                raise Raised("ModelUnbounded")   # what the library would report: the fragment built a model without a finite optimum
            for v, x in zip(open_, sol):
                val[v] = x
        for v in cv:
            for c, cvs in by_var.get(v, ()):
                if not c.holds(val):
                    return None
        return objective.value(val) if objective is not None else 0.0

    def enumerate(self):
        """All feasible integer points with their best completion: [(objective, {var: value})], sorted by objective. The
        integer variables are assigned depth first; a branch is cut as soon as a constraint over integer variables only
        cannot be met any more (interval bound on its left-hand side)."""
        if self.objective_ is None:
            raise Unfoldable("model solved without an objective")
        iv, doms = self._domains()
        pos = {v: i for i, v in enumerate(iv)}
        int_only = [c for c in self.cons if all(v.vtype != "C" or not k for v, k in c.expr.terms.items())]
        # per constraint: the last position it touches, and interval bounds of the unassigned tail
        prepared = []
        for c in int_only:
            ts = [(pos[v], k) for v, k in c.expr.terms.items() if k and v in pos]
            prepared.append((c, ts))
        out = []
        budget = [0]
        assign = [0] * len(iv)

        def feasible_so_far(depth):
            for c, ts in prepared:
                lo = hi = c.expr.const
                for i, k in ts:
                    if i < depth:
                        lo += k * assign[i]
                        hi += k * assign[i]
                    else:
                        d = doms[i]
                        a_, b_ = k * d[0], k * d[-1]
                        lo += min(a_, b_)
                        hi += max(a_, b_)
                if c.sense in ("<=", "==") and lo > 1e-7:
                    return False
                if c.sense in (">=", "==") and hi < -1e-7:
                    return False
            return True

        def rec(depth):
            budget[0] += 1
            if budget[0] > 400000:
                raise Unfoldable("model too large for exhaustive evaluation (more than 400000 search nodes)")
            if not feasible_so_far(depth):
                return
            if depth == len(iv):
                val = dict(zip(iv, assign))
                obj = self.complete(val)
                if obj is not None:
                    out.append((obj, val))
                return
            for x in doms[depth]:
                assign[depth] = x
                rec(depth + 1)

        rec(0)
        sign = 1 if self.sense_ == "min" else -1
        out.sort(key=lambda t: (sign * t[0], tuple(t[1][v] for v in iv)))
        return out

    def Solve(self, params=None):
        # solver parameters: a relative MIP gap g allows the library to stop at ANY feasible point within (1 + g) of the optimum --
        # the stand-in then answers with the worst such point (a static verdict has to hold for every answer the library may give)
        self.rel_gap = 0.0
        if params is not None:
            if not isinstance(params, SolverParameters):
                raise Raised("TypeError")
            self.rel_gap = max(0.0, float(params.doubles.get(SolverParameters.RELATIVE_MIP_GAP, 0.0)))
        self.solves += 1
        if self.built is None:
            self.built = len(self.cons)
        if self._table is None:
            self._table = self.enumerate()
            self._seen_cons = len(self.cons)
        elif len(self.cons) > self._seen_cons:
            new = self.cons[self._seen_cons:]
            if any(v.vtype == "C" and k for c in new for v, k in c.expr.terms.items()):
                self._table = self.enumerate()
            else:
                self._table = [(o, val) for o, val in self._table if all(c.holds(val) for c in new)]
            self._seen_cons = len(self.cons)
        if not self._table:
            for v in self.vars:
                v.value = None
            return self.INFEASIBLE
        obj, val = self._table[0]
        if self.rel_gap > 0:
            sign = 1 if self.sense_ == "min" else -1
            lim = sign * obj + abs(obj) * self.rel_gap
            within = [(o, v_) for o, v_ in self._table if sign * o <= lim + 1e-12]
            obj, val = within[-1]
        self.best = obj
        for v in self.vars:
            v.value = val.get(v, 0.0)
        return self.OPTIMAL if self.force_status is None else self.force_status


class SolverParameters:
    """MPSolverParameters of the library: recorded; only the relative MIP gap changes what Solve may answer."""
    _fold_ok = True
    RELATIVE_MIP_GAP, PRIMAL_TOLERANCE, DUAL_TOLERANCE = 0, 1, 2
    PRESOLVE, LP_ALGORITHM, INCREMENTALITY, SCALING = 1000, 1001, 1002, 1003
    PRESOLVE_OFF, PRESOLVE_ON, DUAL, PRIMAL, BARRIER, INCREMENTALITY_OFF, INCREMENTALITY_ON, SCALING_OFF, SCALING_ON = 0, 1, 10, 11, 12, 0, 1, 0, 1

    def __init__(self):
        self.doubles, self.ints = {}, {}

    def SetDoubleParam(self, param, value):
        self.doubles[param] = value

    def SetIntegerParam(self, param, value):
        self.ints[param] = value

    def GetDoubleParam(self, param):
        return self.doubles.get(param, {0: 1e-4}.get(param, 1e-7))

    def GetIntegerParam(self, param):
        return self.ints.get(param, 0)


def wrapper_model(repo, funcs=None, consts=None):
    """lpinterface.CBC of /repo (with what it inherits from lpinterface.Gurobi) lifted as a class model."""
    import ast

    base = repo.cls("lpinterface::Gurobi")
    sub = repo.cls("lpinterface::CBC")
    merged = ast.ClassDef(name="CBC", bases=[], keywords=[], body=[], decorator_list=[])
    defs = {n.name: n for n in base.body if isinstance(n, ast.FunctionDef)}
    defs.update({n.name: n for n in sub.body if isinstance(n, ast.FunctionDef)})
    merged.body = list(defs.values())
    from .fold import lift_module_helpers, module_consts

    fn = dict(funcs or {})
    cs = dict(module_consts(repo.mod("lpinterface")))
    cs.update(module_consts(repo.mod("common")))
    cs.update(consts or {})
    env = {}
    fn.setdefault("sorted_tuple", lambda it: tuple(sorted(it)))
    lift_module_helpers(repo.mod("lpinterface").tree, fn, cs, env, {}, skip=("model",))
    return ClassModel(merged, fn, cs, env)


def new_model(wrapper: ClassModel, name="model", int_limit=22):
    """An instance of the wrapper class bound to a fresh library stand-in (what lpinterface.model(name, 'cbc') returns)."""
    lib = Library(name, int_limit)
    status = collections.defaultdict(lambda: "UNKNOWN", {Library.OPTIMAL: "OPTIMAL", Library.FEASIBLE: "FEASIBLE", Library.INFEASIBLE: "INFEASIBLE",
                                                         Library.UNBOUNDED: "UNBOUNDED", Library.ABNORMAL: "ABNORMAL", Library.NOT_SOLVED: "NOT_SOLVED"})
    ortools = Obj(Solver=Obj(OPTIMAL=Library.OPTIMAL, FEASIBLE=Library.FEASIBLE, INFEASIBLE=Library.INFEASIBLE, UNBOUNDED=Library.UNBOUNDED,
                             ABNORMAL=Library.ABNORMAL, NOT_SOLVED=Library.NOT_SOLVED), MPSolverParameters=SolverParameters)
    return wrapper.instance(model=lib, ortools=ortools, INF=INF, STATUS=status, names=collections.defaultdict(int)), lib


def _simplex(cost, rows, bounds):
    """min cost.x  s.t. rows (coefs, sense, rhs), bounds (lo, hi) per variable (infinite allowed).
    Returns the optimal x, None (infeasible) or 'unbounded'. Dense two-phase simplex with Bland's rule; sizes are tiny."""
    n = len(cost)
    # substitute x_j = lo + y (lo finite) | hi - y (only hi finite) | y1 - y2 (free); y >= 0
    cols = []      # per y column: (variable index, factor)
    shift = [0.0] * n
    extra = []     # upper-bound rows on y columns: (column, width)
    for j, (lo, hi) in enumerate(bounds):
        if lo > -INF:
            shift[j] = lo
            cols.append((j, 1.0))
            if hi < INF:
                extra.append((len(cols) - 1, hi - lo))
        elif hi < INF:
            shift[j] = hi
            cols.append((j, -1.0))
        else:
            cols.append((j, 1.0))
            cols.append((j, -1.0))
    m_rows = []
    for coefs, sense, rhs in rows:
        r = [coefs[j] * f for j, f in cols]
        b = rhs - sum(coefs[j] * shift[j] for j in range(n))
        if sense == "==":
            m_rows.append((r, "==", b))
        else:
            m_rows.append((r, sense, b))
    for col, width in extra:
        if width < -1e-9:
            return None
        r = [0.0] * len(cols)
        r[col] = 1.0
        m_rows.append((r, "<=", width))
    c = [cost[j] * f for j, f in cols]
    nv = len(cols)
    # standard form: A y + s = b, b >= 0, with slack / surplus / artificial columns
    A, bvec, basis = [], [], []
    n_slack = sum(1 for _, s_, _ in m_rows if s_ != "==")
    art = []
    slack_i = 0
    total = nv + n_slack
    for r, s_, b in m_rows:
        row = list(r) + [0.0] * n_slack
        if s_ != "==":
            row[nv + slack_i] = 1.0 if s_ == "<=" else -1.0
        if b < 0:
            row = [-x for x in row]
            b = -b
        A.append(row)
        bvec.append(b)
        if s_ != "==" and row[nv + slack_i] == 1.0:
            basis.append(nv + slack_i)
        else:
            basis.append(None)
        if s_ != "==":
            slack_i += 1
    for i, bv in enumerate(basis):
        if bv is None:
            for row in A:
                row.append(0.0)
            A[i][-1] = 1.0
            basis[i] = len(A[i]) - 1
            art.append(basis[i])
    width = len(A[0]) if A else total
    if not A:
        x = list(shift)
        if any(ci < -1e-12 for ci in c):
            return "unbounded"
        return x

    def run(obj):
        # obj: cost vector over all columns; returns 'optimal' | 'unbounded'
        for _ in range(5000):
            # reduced costs
            y = [obj[basis[i]] for i in range(len(A))]
            red = [obj[j] - sum(y[i] * A[i][j] for i in range(len(A))) for j in range(width)]
            enter = next((j for j in range(width) if red[j] < -1e-9 and j not in basis), None)
            if enter is None:
                return "optimal"
            best, leave = None, None
            for i in range(len(A)):
                if A[i][enter] > 1e-9:
                    ratio = bvec[i] / A[i][enter]
                    if best is None or ratio < best - 1e-12 or (abs(ratio - best) <= 1e-12 and basis[i] < basis[leave]):
                        best, leave = ratio, i
            if leave is None:
                return "unbounded"
            piv = A[leave][enter]
            A[leave] = [x / piv for x in A[leave]]
            bvec[leave] /= piv
            for i in range(len(A)):
                if i != leave and abs(A[i][enter]) > 1e-12:
                    f = A[i][enter]
                    A[i] = [a - f * p for a, p in zip(A[i], A[leave])]
                    bvec[i] -= f * bvec[leave]
            basis[leave] = enter
        raise Unfoldable("simplex did not terminate")

    if art:
        phase1 = [0.0] * width
        for j in art:
            phase1[j] = 1.0
        run(phase1)
        if sum(bvec[i] for i in range(len(A)) if basis[i] in art) > 1e-7:
            return None
        # drive artificials out of the basis where possible, then forbid them
        for i in range(len(A)):
            if basis[i] in art:
                j = next((j for j in range(total) if abs(A[i][j]) > 1e-9), None)
                if j is not None:
                    piv = A[i][j]
                    A[i] = [x / piv for x in A[i]]
                    bvec[i] /= piv
                    for k in range(len(A)):
                        if k != i and abs(A[k][j]) > 1e-12:
                            f = A[k][j]
                            A[k] = [a - f * p for a, p in zip(A[k], A[i])]
                            bvec[k] -= f * bvec[i]
                    basis[i] = j
        for row in A:
            for j in art:
                row[j] = 0.0
    obj = c + [0.0] * (width - nv)
    st = run(obj)
    if st == "unbounded":
        return "unbounded"
    yv = [0.0] * width
    for i, bcol in enumerate(basis):
        yv[bcol] = bvec[i]
    x = list(shift)
    for k, (j, f) in enumerate(cols):
        x[j] += f * yv[k]
    return x
