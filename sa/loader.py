"""
Parse the aldy package (aldy/*.py; tests/ and the vendored Cython indelpost/ are excluded)
and index modules, classes and functions by qualified name.

Nothing under the repository is imported or executed.
"""

import ast
import hashlib
import os
from typing import Dict, Iterator, List, Optional, Tuple


class AnalysisError(Exception):
    """An anchor vanished, or a construct is outside a rule's closed language (exit code 2)."""


MODULES = [
    "__init__",
    "__main__",
    "cn",
    "common",
    "coverage",
    "diplotype",
    "gene",
    "genotype",
    "lpinterface",
    "major",
    "minor",
    "profile",
    "query",
    "sam",
    "solutions",
    "version",
]

FuncNode = (ast.FunctionDef, ast.AsyncFunctionDef, ast.Lambda)


def default_root() -> str:
    return os.environ.get("ALDY_REPO", "/repo")


class Module:
    def __init__(self, name: str, path: str, src: str):
        self.name = name
        self.path = path
        self.src = src
        self.sha = hashlib.sha256(src.encode()).hexdigest()
        self.tree = ast.parse(src, filename=path)
        self.lines = src.splitlines()
        self.functions: Dict[str, ast.AST] = {}
        self.classes: Dict[str, ast.ClassDef] = {}
        self.imports: Dict[str, Tuple[str, Optional[str]]] = {}  # local name -> (module, attr)
        self._annotate()

    def _annotate(self):
        mod = self

        def walk(node, parent, qual, func):
            node._parent = parent
            node._mod = mod
            node._func = func  # innermost enclosing function node (or None)
            nq, nf = qual, func
            if isinstance(node, (ast.FunctionDef, ast.AsyncFunctionDef)):
                nq = f"{qual}.{node.name}" if qual else node.name
                node._qual = nq
                mod.functions[nq] = node
                nf = node
            elif isinstance(node, ast.ClassDef):
                nq = f"{qual}.{node.name}" if qual else node.name
                node._qual = nq
                mod.classes[nq] = node
            elif isinstance(node, ast.Lambda):
                nq = f"{qual}.<lambda@{node.lineno}>" if qual else f"<lambda@{node.lineno}>"
                node._qual = nq
                nf = node
            for ch in ast.iter_child_nodes(node):
                walk(ch, node, nq, nf)

        walk(self.tree, None, "", None)
        for st in self.tree.body:
            if isinstance(st, ast.ImportFrom):
                m = ("." * st.level) + (st.module or "")
                for a in st.names:
                    self.imports[a.asname or a.name] = (m, a.name)
            elif isinstance(st, ast.Import):
                for a in st.names:
                    self.imports[a.asname or a.name.split(".")[0]] = (a.name, None)

    def seg(self, node) -> str:
        try:
            return ast.get_source_segment(self.src, node) or ast.unparse(node)
        except Exception:
            return ast.unparse(node)


class Repo:
    """The parsed package."""

    def __init__(self, sources: Dict[str, str], root: str):
        self.root = root
        self.modules: Dict[str, Module] = {}
        for name, src in sources.items():
            self.modules[name] = Module(name, os.path.join(root, "aldy", name + ".py"), src)

    # -- construction ---------------------------------------------------------------------
    @staticmethod
    def read_sources(root: Optional[str] = None) -> Dict[str, str]:
        root = root or default_root()
        out = {}
        pkg = os.path.join(root, "aldy")
        if not os.path.isdir(pkg):
            raise AnalysisError(f"package directory {pkg} not found")
        for m in MODULES:
            p = os.path.join(pkg, m + ".py")
            if not os.path.exists(p):
                raise AnalysisError(f"module {p} not found")
            with open(p, encoding="utf-8") as f:
                out[m] = f.read()
        # any additional top-level module of the package is analysed too
        for fn in sorted(os.listdir(pkg)):
            if fn.endswith(".py") and fn[:-3] not in out:
                with open(os.path.join(pkg, fn), encoding="utf-8") as f:
                    out[fn[:-3]] = f.read()
        return out

    @classmethod
    def load(cls, root: Optional[str] = None) -> "Repo":
        root = root or default_root()
        try:
            return cls(cls.read_sources(root), root)
        except SyntaxError as e:
            raise AnalysisError(f"cannot parse {e.filename}:{e.lineno}: {e.msg}")

    def with_source(self, module: str, src: str) -> "Repo":
        """A copy of the repository with one module replaced (in memory; used by the self-test)."""
        s = {n: m.src for n, m in self.modules.items()}
        s[module] = src
        return Repo(s, self.root)

    # -- lookup ---------------------------------------------------------------------------
    def mod(self, name: str) -> Module:
        if name not in self.modules:
            raise AnalysisError(f"anchor module aldy/{name}.py not found")
        return self.modules[name]

    def func(self, ref: str) -> ast.AST:
        """`ref` is 'module::Qual.name'."""
        m, q = ref.split("::")
        mod = self.mod(m)
        if q not in mod.functions:
            raise AnalysisError(f"anchor function {ref} not found")
        return mod.functions[q]

    def has_func(self, ref: str) -> bool:
        m, q = ref.split("::")
        return m in self.modules and q in self.modules[m].functions

    def cls(self, ref: str) -> ast.ClassDef:
        m, q = ref.split("::")
        mod = self.mod(m)
        if q not in mod.classes:
            raise AnalysisError(f"anchor class {ref} not found")
        return mod.classes[q]

    def all_functions(self) -> Iterator[Tuple[str, ast.AST]]:
        for mn, m in self.modules.items():
            for q, f in m.functions.items():
                yield f"{mn}::{q}", f

    def digest(self, modules: Optional[List[str]] = None) -> Dict[str, str]:
        return {
            f"aldy/{n}.py": m.sha[:16]
            for n, m in sorted(self.modules.items())
            if modules is None or n in modules
        }


# -- small AST helpers used everywhere ---------------------------------------------------------


def loc(node) -> str:
    m = getattr(node, "_mod", None)
    p = f"aldy/{m.name}.py" if m else "?"
    return f"{p}:{getattr(node, 'lineno', 0)}"


def qual_of(node) -> str:
    """module::qualname of the innermost function enclosing `node` (or the node itself)."""
    m = getattr(node, "_mod", None)
    f = node if isinstance(node, FuncNode) else getattr(node, "_func", None)
    q = getattr(f, "_qual", "<module>") if f is not None else "<module>"
    return f"{m.name if m else '?'}::{q}"


def text(node) -> str:
    """Normalised text of a construct (independent of layout and line numbers)."""
    return ast.unparse(node)


def parents(node) -> Iterator[ast.AST]:
    p = getattr(node, "_parent", None)
    while p is not None:
        yield p
        p = getattr(p, "_parent", None)


def enclosing_stmt(node) -> ast.stmt:
    n = node
    while n is not None and not isinstance(n, ast.stmt):
        n = getattr(n, "_parent", None)
    if n is None:
        raise AnalysisError("expression without enclosing statement")
    return n


def walk_local(node) -> Iterator[ast.AST]:
    """ast.walk that does not descend into nested function definitions / lambdas / classes
    (the root itself may be one).  Nested definitions themselves are yielded, their bodies are not."""
    stack = [node]
    first = True
    while stack:
        n = stack.pop()
        yield n
        if not first and isinstance(n, FuncNode + (ast.ClassDef,)):
            continue
        first = False
        stack.extend(reversed(list(ast.iter_child_nodes(n))))


def calls_in(node, local=True) -> Iterator[ast.Call]:
    it = walk_local(node) if local else ast.walk(node)
    for n in it:
        if isinstance(n, ast.Call):
            yield n


def call_name(call: ast.Call) -> str:
    """Dotted name of the callee expression ('model.addConstr', 'self._parse_read', 'min')."""
    return dotted(call.func)


def dotted(node) -> str:
    if isinstance(node, ast.Name):
        return node.id
    if isinstance(node, ast.Attribute):
        b = dotted(node.value)
        return f"{b}.{node.attr}" if b else f"?.{node.attr}"
    if isinstance(node, ast.Call):
        return dotted(node.func) + "()"
    if isinstance(node, ast.Subscript):
        return dotted(node.value) + "[]"
    return ""


def method_name(call: ast.Call) -> str:
    if isinstance(call.func, ast.Attribute):
        return call.func.attr
    if isinstance(call.func, ast.Name):
        return call.func.id
    return ""


def kwarg(call: ast.Call, name: str):
    for k in call.keywords:
        if k.arg == name:
            return k.value
    return None


def const(node):
    """Value of a literal constant expression (numbers, strings, +/- numbers, tuples/lists of them)
    or raises ValueError."""
    return ast.literal_eval(node)


def is_const(node) -> bool:
    try:
        const(node)
        return True
    except Exception:
        return False
