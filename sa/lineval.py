"""
Semantic evaluation of an extracted linear form on a small sample instance.

A rule binds the free names of one constraint template (its loop variables, sample tables, sample
coefficients) and supplies values for model variables; `eval_lin` then computes the value of the
normal form.  Sum terms iterate their binders with the fold evaluator, filters are folded, and
coefficient atoms (source text) are folded under the same bindings.  This evaluates one lifted
template at a time -- never a whole model.
"""

import ast
from typing import Any, Callable, Dict, Optional

from .fold import Evaluator, Raised, Unfoldable
from .linform import Lin, Coef
from .loader import walk_local


class LinEval:
    def __init__(self, env: Dict[str, Any], varval: Callable, funcs=None, atomval: Optional[Callable] = None,
                 tableval: Optional[Callable] = None, consts=None, hook=None):
        self.ev = Evaluator(env, funcs=funcs, consts=consts, hook=hook)
        self.varval, self.atomval, self.tableval = varval, atomval, tableval

    def coef(self, c: Coef) -> float:
        v = float(c.num)
        for a in c.mul:
            v *= self.text(a)
        for a in c.div:
            v /= self.text(a)
        return v

    def text(self, t: str) -> float:
        try:
            node = ast.parse(t, mode="eval").body
        except SyntaxError:
            raise Unfoldable(f"coefficient atom {t!r}")
        return self.ev.ev(node)

    def lin(self, l: Lin) -> float:
        total = 0.0
        for c in l.consts:
            total += self.coef(c)
        for c, t in l.terms:
            total += self.coef(c) * self.term(t)
        return total

    def term(self, t) -> float:
        if t.kind == "var":
            keys = tuple(self.ev.ev(k) if isinstance(k, ast.AST) else k for k in t.keys)
            return self.varval(t.fam, keys, t.comp)
        if t.kind == "sum":
            return self.sum(t, 0)
        if t.kind == "table":
            if self.tableval is None:
                raise Unfoldable(f"table read {t.text()}")
            return self.tableval(t.name, self.ev.ev(t.key) if isinstance(t.key, ast.AST) else t.key)
        if t.kind == "elem":
            if self.atomval is None:
                raise Unfoldable(f"list element {t.text()}")
            return self.atomval(t)
        if self.atomval is not None:
            v = self.atomval(t)
            if v is not NotImplemented:
                return v
        raise Unfoldable(f"opaque term {t.text()[:60]}")

    def sum(self, s, i) -> float:
        if i == 0:
            # filters that do not depend on the binders decide the whole sum early
            for f, pol in s.filters:
                try:
                    if bool(self.ev.ev(f)) != pol:
                        return 0.0
                except (Unfoldable, Raised):
                    pass
        if i == len(s.binders):
            for f, pol in s.filters:
                if bool(self.ev.ev(f)) != pol:
                    return 0.0
            return self.lin(s.body)
        tgt, it = s.binders[i]
        total = 0.0
        saved = dict(self.ev.locals)
        try:
            for item in list(self.ev.ev(it)):
                self.ev._assign(tgt, item)
                # filters that only mention already bound names could be tested early; keep it simple
                total += self.sum(s, i + 1)
        finally:
            self.ev.locals = saved
        return total


def reach_hook(func):
    """Evaluator hook: an unbound local name evaluates to the value of its unique reaching plain assignment
    (reaching definitions on the function's CFG at the node where the name is read)."""
    from .cfg import cfg_of
    from .dataflow import reaching
    from .loader import AnalysisError

    cfg = cfg_of(func)

    def hook(node, ev):
        if not isinstance(node, ast.Name) or not isinstance(getattr(node, "ctx", None), ast.Load):
            return NotImplemented
        if node.id in ev.locals or node.id in ev.bound or getattr(node, "_parent", None) is None:
            return NotImplemented
        if node.id in getattr(ev, "_reach_busy", set()):
            return NotImplemented
        try:
            nid = cfg.node_of(node)
        except AnalysisError:
            return NotImplemented
        IN, defs = reaching(cfg, node.id)
        ds = [defs[d] for d in IN[nid]]
        if len(ds) != 1 or not isinstance(ds[0], ast.Assign) or len(ds[0].targets) != 1 \
                or not isinstance(ds[0].targets[0], ast.Name):
            return NotImplemented
        busy = getattr(ev, "_reach_busy", set())
        ev._reach_busy = busy | {node.id}
        try:
            return ev.ev(ds[0].value)
        finally:
            ev._reach_busy = busy

    return hook


def fold_defs(func, names, env, funcs=None, consts=None, hook=None, upto=None) -> Dict[str, Any]:
    """Backward slice by name: run, in source order, the top-level statements of `func` that store into one
    of `names` (directly, by subscript, or inside a loop / branch), and return the evaluator's locals."""
    names = set(names)
    ev = Evaluator(env, funcs=funcs, consts=consts, hook=hook)

    def stores(st) -> bool:
        for n in ast.walk(st):
            if isinstance(n, ast.Name) and isinstance(n.ctx, (ast.Store, ast.Del)) and n.id in names:
                return True
            if isinstance(n, ast.Subscript) and isinstance(n.ctx, (ast.Store, ast.Del)):
                b = n.value
                while isinstance(b, (ast.Subscript, ast.Attribute)):
                    b = b.value
                if isinstance(b, ast.Name) and b.id in names:
                    return True
        return False

    for st in func.body:
        if upto is not None and st.lineno >= upto:
            break
        if isinstance(st, (ast.FunctionDef, ast.ClassDef)):
            continue
        if stores(st):
            kind, val = ev.run([st])
            if kind == "raise":
                raise Raised(val)
    return ev.locals


def bindings(binders, filters, env, funcs=None, consts=None, hook=None, defs=None):
    """All bindings of the loop variables `binders` (nested, in order) under `env` for which `filters` hold.
    Yields dicts of the bound locals."""
    ev = Evaluator(env, funcs=funcs, consts=consts, hook=hook, defs=defs)

    def rec(i):
        if i == len(binders):
            for f, pol in filters:
                if bool(ev.ev(f)) != pol:
                    return
            yield dict(ev.locals)
            return
        tgt, it = binders[i]
        saved = dict(ev.locals)
        for item in list(ev.ev(it)):
            ev.locals = dict(saved)
            ev._assign(tgt, item)
            yield from rec(i + 1)
        ev.locals = saved

    yield from rec(0)


def site_values(site, env, varval, funcs=None, atomval=None, tableval=None, consts=None, hook=None, defs=None, skip_binders=0):
    """Value of a constraint site's normal form (canonical `L <= 0` / `L == 0`) for every binding of its loops."""
    out = []
    for loc in bindings(site.binders[skip_binders:], site.filters, env, funcs, consts, hook, defs):
        e = dict(env)
        e.update(loc)
        le = LinEval(e, varval, funcs=funcs, atomval=atomval, tableval=tableval, consts=consts, hook=hook)
        le.ev.defs = dict(defs or {})
        out.append((loc, le.lin(site.lin)))
    return out


def scatter_value(model, table, key, env, varval, funcs=None, consts=None, hook=None, defs=None, atomval=None):
    """Value accumulated in a scatter table under `key`: sum over all `T[k] += v` sites whose key equals `key`."""
    total = 0.0
    for s in model.scatter(table):
        if s["init"]:
            continue
        for loc in bindings(s["binders"], s["filters"], env, funcs, consts, hook, defs):
            e = dict(env)
            e.update(loc)
            kev = Evaluator(e, funcs=funcs, consts=consts, hook=hook, defs=defs)
            if kev.ev(s["key"]) != key:
                continue
            le = LinEval(e, varval, funcs=funcs, consts=consts, hook=hook, atomval=atomval)
            le.ev.defs = dict(defs or {})
            total += le.lin(s["lin"])
    return total
