"""
Hash-order taint (C14.R3): iteration order of a `set` (whose elements contain strings, so the order
follows PYTHONHASHSEED) must not reach
  (a) a numeric model coefficient through a running counter / enumerate index that is paired with
      the iterated element, or
  (b) a list handed to a solution object (SolvedAllele / MajorSolution / MinorSolution / CNSolution).
Order-insensitive consumers (sorted, natsorted, sorted_tuple, min, max, sum, len, any, all, set,
frozenset, Counter, quicksum, membership, dict keyed by the element) end the flow.
"""

import ast
from typing import Dict, List, Optional, Set, Tuple

from .loader import FuncNode, call_name, walk_local

KILL = {"sorted", "natsorted", "sorted_tuple", "min", "max", "sum", "len", "any", "all", "set", "frozenset",
        "Counter", "collections.Counter", "quicksum", "model.quicksum", "self.quicksum", "abs", "bool"}
KEEP = {"list", "tuple", "enumerate", "zip", "reversed", "iter", "dict", "filter", "map"}
SOLUTION_CTORS = {"SolvedAllele", "MajorSolution", "MinorSolution", "CNSolution",
                  "solutions.SolvedAllele", "solutions.MajorSolution", "solutions.MinorSolution", "solutions.CNSolution"}


def set_fields(repo) -> Tuple[Set[str], Set[str]]:
    """(attribute names annotated as Set in every class that declares them, ambiguous names)."""
    kinds: Dict[str, Set[str]] = {}
    for m in repo.modules.values():
        for c in m.classes.values():
            for st in c.body:
                if isinstance(st, ast.AnnAssign) and isinstance(st.target, ast.Name):
                    t = ast.unparse(st.annotation)
                    k = "set" if t.startswith("Set[") or t == "set" else "other"
                    kinds.setdefault(st.target.id, set()).add(k)
    sure = {a for a, k in kinds.items() if k == {"set"}}
    amb = {a for a, k in kinds.items() if "set" in k and len(k) > 1}
    return sure, amb


class OrderAnalysis:
    def __init__(self, repo, func, setattrs: Set[str]):
        self.repo, self.func, self.setattrs = repo, func, setattrs
        self.set_names: Set[str] = set()
        self.dictset_names: Set[str] = set()  # Dict[..., Set[...]] locals / params
        self.marked: Set[str] = set()
        self._collect_types()
        for _ in range(4):
            before = (len(self.marked), len(self.set_names))
            self._propagate()
            if (len(self.marked), len(self.set_names)) == before:
                break

    # -- typing ------------------------------------------------------------------------------
    def _ann(self, name, ann):
        if ann is None:
            return
        t = ast.unparse(ann)
        if t.startswith("Set[") or t == "set" or t.startswith("Optional[Set["):
            self.set_names.add(name)
        if t.startswith("Dict[") and "Set[" in t.split(",")[-1] + t[-12:]:
            self.dictset_names.add(name)

    def _collect_types(self):
        a = self.func.args
        for p in a.posonlyargs + a.args + a.kwonlyargs:
            self._ann(p.arg, p.annotation)
        for n in walk_local(self.func):
            if isinstance(n, ast.AnnAssign) and isinstance(n.target, ast.Name):
                self._ann(n.target.id, n.annotation)

    def is_set(self, e) -> bool:
        if isinstance(e, (ast.Set, ast.SetComp)):
            return not self._int_elts(e)
        if isinstance(e, ast.Name):
            return e.id in self.set_names
        if isinstance(e, ast.Attribute):
            return e.attr in self.setattrs
        if isinstance(e, ast.Call):
            nm = call_name(e)
            if nm in ("set", "frozenset"):
                return True
            if isinstance(e.func, ast.Attribute) and e.func.attr in ("copy", "union", "intersection", "difference",
                                                                     "symmetric_difference"):
                return self.is_set(e.func.value)
            return False
        if isinstance(e, ast.BinOp) and isinstance(e.op, (ast.BitOr, ast.BitAnd, ast.Sub, ast.BitXor)):
            return self.is_set(e.left) or self.is_set(e.right)
        if isinstance(e, ast.Subscript) and isinstance(e.value, ast.Name):
            return e.value.id in self.dictset_names
        if isinstance(e, ast.IfExp):
            return self.is_set(e.body) or self.is_set(e.orelse)
        return False

    def _int_elts(self, e) -> bool:
        if isinstance(e, ast.SetComp):
            x = e.elt
            return isinstance(x, ast.Attribute) and x.attr == "pos" or (isinstance(x, ast.Constant) and isinstance(x.value, int))
        if isinstance(e, ast.Set):
            return all(isinstance(x, ast.Constant) and isinstance(x.value, int) for x in e.elts)
        return False

    # -- order marks ---------------------------------------------------------------------------
    def hash_iter(self, it) -> bool:
        """Does iterating `it` follow hash order?"""
        if self.is_set(it):
            return True
        return self.is_marked(it)

    def is_marked(self, e) -> bool:
        if isinstance(e, ast.Name):
            return e.id in self.marked
        if isinstance(e, ast.Call):
            nm = call_name(e)
            if nm in ("sorted", "natsorted") and e.args and not _total_key(e):
                # a sort on a partial key is stable: ties keep the (hash) order of the input
                return self.hash_iter(e.args[0])
            if nm in KILL:
                return False
            if nm in KEEP:
                return any(self.hash_iter(a) for a in e.args)
            if isinstance(e.func, ast.Attribute) and e.func.attr in ("items", "values", "keys", "copy", "get"):
                return self.is_marked(e.func.value)
            return False
        if isinstance(e, ast.Subscript):
            return self.is_marked(e.value)
        if isinstance(e, ast.Attribute):
            return False
        if isinstance(e, (ast.ListComp, ast.GeneratorExp, ast.DictComp)):
            if any(self.hash_iter(g.iter) for g in e.generators):
                return True
            inner = e.value if isinstance(e, ast.DictComp) else e.elt
            return self.contains_marked(inner)
        if isinstance(e, ast.BinOp) and isinstance(e.op, ast.Add):
            return self.is_marked(e.left) or self.is_marked(e.right)
        if isinstance(e, (ast.List, ast.Tuple)):
            return any(self.is_marked(x) for x in e.elts)
        if isinstance(e, ast.IfExp):
            return self.is_marked(e.body) or self.is_marked(e.orelse)
        if isinstance(e, ast.Starred):
            return self.is_marked(e.value)
        return False

    def contains_marked(self, e) -> bool:
        if isinstance(e, (ast.ListComp, ast.GeneratorExp, ast.DictComp)):
            return self.is_marked(e)
        if isinstance(e, (ast.Tuple, ast.List)):
            return any(self.contains_marked(x) for x in e.elts)
        return False

    def _enclosing_hash_loops(self, node) -> List[ast.For]:
        out = []
        p = getattr(node, "_parent", None)
        while p is not None and p is not self.func:
            if isinstance(p, ast.For) and self.hash_iter(p.iter):
                out.append(p)
            if isinstance(p, FuncNode):
                break
            p = getattr(p, "_parent", None)
        return out

    def _propagate(self):
        for n in walk_local(self.func):
            if isinstance(n, ast.Assign) and len(n.targets) == 1 and isinstance(n.targets[0], ast.Name):
                t = n.targets[0].id
                if self.is_set(n.value):
                    self.set_names.add(t)
                if self.is_marked(n.value):
                    self.marked.add(t)
            elif isinstance(n, ast.AnnAssign) and isinstance(n.target, ast.Name) and n.value is not None:
                if self.is_marked(n.value):
                    self.marked.add(n.target.id)
            elif isinstance(n, ast.AugAssign) and isinstance(n.target, ast.Name):
                if isinstance(n.op, (ast.BitOr, ast.BitAnd, ast.Sub)) and self.is_set(n.value):
                    pass
                if isinstance(n.op, ast.Add) and (self.is_marked(n.value) or
                                                  (self._enclosing_hash_loops(n) and isinstance(n.value, (ast.List, ast.ListComp)))):
                    self.marked.add(n.target.id)
            # containers filled inside a hash-ordered loop
            if isinstance(n, ast.Call) and isinstance(n.func, ast.Attribute) and n.func.attr in ("append", "extend", "insert"):
                if self._enclosing_hash_loops(n) or any(self.is_marked(a) for a in n.args):
                    for nm in _container_names(n.func.value):
                        self.marked.add(nm)
            if isinstance(n, ast.Assign) and isinstance(n.targets[0], ast.Subscript) and self._enclosing_hash_loops(n):
                base = n.targets[0].value
                while isinstance(base, ast.Subscript):
                    base = base.value
                if isinstance(base, ast.Name):
                    # dict insertion order follows the loop -- unless the key store only updates existing keys;
                    # conservative: mark
                    self.marked.add(base.id)

    # -- sinks -----------------------------------------------------------------------------------
    def sinks(self) -> List[Tuple[str, ast.AST, str]]:
        out = []
        # (a) counters / enumerate indices paired with hash-ordered elements
        for loop in [n for n in walk_local(self.func) if isinstance(n, ast.For)]:
            if not self.hash_iter(loop.iter):
                continue
            counters = set()
            for n in walk_local(loop):
                if isinstance(n, ast.AugAssign) and isinstance(n.target, ast.Name) and isinstance(n.op, ast.Add) \
                        and isinstance(n.value, ast.Constant) and isinstance(n.value.value, (int, float)):
                    counters.add((n.target.id, n))
            if isinstance(loop.iter, ast.Call) and call_name(loop.iter) == "enumerate" and isinstance(loop.target, ast.Tuple) \
                    and isinstance(loop.target.elts[0], ast.Name):
                counters.add((loop.target.elts[0].id, None))
            for cname, inc in counters:
                for n in walk_local(loop):
                    if isinstance(n, ast.BinOp) and n is not (inc.value if inc is not None else None):
                        if any(isinstance(x, ast.Name) and x.id == cname for x in ast.walk(n)) \
                                and not _inside_fstring(n) and _stmt(n) is not inc:
                            out.append(("coefficient", n,
                                        f"counter `{cname}` advances with a hash-ordered iteration "
                                        f"(`for ... in {ast.unparse(loop.iter)[:50]}`) and enters arithmetic `{ast.unparse(n)[:70]}`"))
                            break
        # (c) rows written to an output file in hash order
        for loop in [n for n in walk_local(self.func) if isinstance(n, ast.For)]:
            if not self.hash_iter(loop.iter):
                continue
            for n in walk_local(loop):
                if isinstance(n, ast.Call) and ((call_name(n) == "print" and any(k.arg == "file" for k in n.keywords))
                                                or (isinstance(n.func, ast.Attribute) and n.func.attr in ("write", "writelines"))):
                    out.append(("output-order", n,
                                f"output written inside a hash-ordered iteration (`for ... in {ast.unparse(loop.iter)[:60]}`)"))
                    break
        # (b) hash-ordered lists handed to solution objects
        for c in [n for n in walk_local(self.func) if isinstance(n, ast.Call)]:
            if call_name(c) in SOLUTION_CTORS:
                for a in list(c.args) + [k.value for k in c.keywords]:
                    if self.is_marked(a) and not self.is_set(a):
                        out.append(("solution-list", c,
                                    f"`{ast.unparse(a)[:60]}` is built in hash order and stored in {call_name(c)}(...)"))
        return out


def _total_key(call: ast.Call) -> bool:
    """Does the sort key determine the element (so that ties cannot expose the input order)?"""
    k = next((x.value for x in call.keywords if x.arg == "key"), None)
    if k is None:
        return True
    if not isinstance(k, ast.Lambda) or len(k.args.args) != 1:
        return True  # a named key function: assumed total (none in the package)
    p = k.args.args[0].arg

    def covers(b) -> bool:
        if isinstance(b, ast.Name):
            return b.id == p
        if isinstance(b, (ast.Tuple, ast.List)):
            return any(covers(x) for x in b.elts)
        if isinstance(b, ast.Call):
            if any(isinstance(a, ast.Name) and a.id == p for a in b.args):
                return True  # str(x), repr(x), tuple(x)
            if isinstance(b.func, ast.Attribute) and isinstance(b.func.value, ast.Name) and b.func.value.id == p:
                return True  # x.method()
            return any(covers(a) for a in b.args)
        return False

    return covers(k.body)


def _container_names(e):
    """Names of the container(s) an append/extend target denotes."""
    if isinstance(e, ast.Name):
        return [e.id]
    if isinstance(e, ast.IfExp):
        return _container_names(e.body) + _container_names(e.orelse)
    if isinstance(e, ast.Subscript):
        return _container_names(e.value)
    return []


def _inside_fstring(n) -> bool:
    p = getattr(n, "_parent", None)
    while p is not None and not isinstance(p, ast.stmt):
        if isinstance(p, (ast.JoinedStr, ast.FormattedValue)):
            return True
        p = getattr(p, "_parent", None)
    return False


def _stmt(n):
    while n is not None and not isinstance(n, ast.stmt):
        n = getattr(n, "_parent", None)
    return n
