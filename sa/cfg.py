"""
Statement-level control-flow graph of one function, with dominators.

Nodes
  entry, exit (normal return / fall off the end), raise_exit (uncaught `raise`),
  stmt    - a simple statement (Assign, Expr, Return, Raise, ... nested def = opaque stmt),
  test    - the condition of an `if` / `while`,
  iter    - the head of a `for` (evaluates the iterable / fetches the next element),
  with    - entering a `with` block,
  branch  - pseudo node on a labelled edge: (test, True) / (test, False) for tests,
            (for, 'iter') / (for, 'done') for loops.  A branch node dominating N means
            "every path to N took that edge" -- this is how guard facts are read off.
  handler - entry of an `except` clause.

Exceptions: every statement inside a `try` body (and the try entry) has an edge to every handler of
that try; an explicit `raise` goes to the handlers of the innermost enclosing try (conservatively
all of them) or to raise_exit.  Implicit exceptions of statements outside a `try` leave the
function and do not matter for dominance.  `finally` bodies are inlined after body/handlers;
`return` inside try/finally jumps straight to exit (one occurrence in the package, not anchored).
"""

import ast
from typing import Dict, List, Optional, Set, Tuple

from .loader import AnalysisError, FuncNode, enclosing_stmt


class Node:
    __slots__ = ("id", "kind", "ast", "label", "succ", "pred")

    def __init__(self, id, kind, astnode=None, label=None):
        self.id = id
        self.kind = kind
        self.ast = astnode
        self.label = label
        self.succ: List[int] = []
        self.pred: List[int] = []

    def __repr__(self):
        t = ""
        if self.ast is not None:
            try:
                t = ast.unparse(self.ast).split("\n")[0][:60]
            except Exception:
                t = type(self.ast).__name__
        return f"<{self.id}:{self.kind}:{self.label if self.label is not None else ''}:{t}>"


class CFG:
    def __init__(self, func):
        if not isinstance(func, (ast.FunctionDef, ast.AsyncFunctionDef)):
            raise AnalysisError("CFG needs a function definition")
        self.func = func
        self.nodes: List[Node] = []
        self._of: Dict[int, int] = {}  # id(ast stmt/test) -> node id
        self.entry = self._new("entry").id
        self.exit = self._new("exit").id
        self.raise_exit = self._new("raise_exit").id
        self._loops: List[Tuple[int, int]] = []  # (continue target, break target)
        self._handlers: List[List[int]] = []  # stack of handler entry lists
        ends = self._block(func.body, [self.entry])
        for e in ends:
            self._edge(e, self.exit)
        self._domcache: Dict[frozenset, Dict[int, Set[int]]] = {}

    # -- construction ---------------------------------------------------------------------
    def _new(self, kind, astnode=None, label=None) -> Node:
        n = Node(len(self.nodes), kind, astnode, label)
        self.nodes.append(n)
        return n

    def _edge(self, a: int, b: int):
        if b not in self.nodes[a].succ:
            self.nodes[a].succ.append(b)
            self.nodes[b].pred.append(a)

    def _link(self, preds: List[int], n: int):
        for p in preds:
            self._edge(p, n)

    def _exc_edges(self, n: int):
        if self._handlers:
            for h in self._handlers[-1]:
                self._edge(n, h)

    def _block(self, stmts, preds: List[int]) -> List[int]:
        for st in stmts:
            preds = self._stmt(st, preds)
        return preds

    def _stmt(self, st, preds: List[int]) -> List[int]:
        if isinstance(st, ast.If):
            t = self._new("test", st.test)
            self._of[id(st)] = t.id
            self._of[id(st.test)] = t.id
            self._link(preds, t.id)
            self._exc_edges(t.id)
            bt = self._new("branch", st.test, True)
            bf = self._new("branch", st.test, False)
            self._edge(t.id, bt.id)
            self._edge(t.id, bf.id)
            e1 = self._block(st.body, [bt.id])
            e2 = self._block(st.orelse, [bf.id])
            return e1 + e2
        if isinstance(st, ast.While):
            t = self._new("test", st.test)
            self._of[id(st)] = t.id
            self._of[id(st.test)] = t.id
            self._link(preds, t.id)
            self._exc_edges(t.id)
            bt = self._new("branch", st.test, True)
            bf = self._new("branch", st.test, False)
            self._edge(t.id, bt.id)
            self._edge(t.id, bf.id)
            after = self._new("join")
            self._loops.append((t.id, after.id))
            e1 = self._block(st.body, [bt.id])
            self._loops.pop()
            self._link(e1, t.id)
            e2 = self._block(st.orelse, [bf.id])
            self._link(e2, after.id)
            return [after.id]
        if isinstance(st, (ast.For, ast.AsyncFor)):
            h = self._new("iter", st)
            self._of[id(st)] = h.id
            self._link(preds, h.id)
            self._exc_edges(h.id)
            bi = self._new("branch", st, "iter")
            bd = self._new("branch", st, "done")
            self._edge(h.id, bi.id)
            self._edge(h.id, bd.id)
            after = self._new("join")
            self._loops.append((h.id, after.id))
            e1 = self._block(st.body, [bi.id])
            self._loops.pop()
            self._link(e1, h.id)
            e2 = self._block(st.orelse, [bd.id])
            self._link(e2, after.id)
            return [after.id]
        if isinstance(st, (ast.With, ast.AsyncWith)):
            w = self._new("with", st)
            self._of[id(st)] = w.id
            self._link(preds, w.id)
            self._exc_edges(w.id)
            return self._block(st.body, [w.id])
        if isinstance(st, ast.Try) or type(st).__name__ == "TryStar":
            t = self._new("try", st)
            self._of[id(st)] = t.id
            self._link(preds, t.id)
            hs = []
            for h in st.handlers:
                hn = self._new("handler", h)
                self._of[id(h)] = hn.id
                hs.append(hn.id)
            self._handlers.append(hs)
            self._exc_edges(t.id)
            e_body = self._block(st.body, [t.id])
            self._handlers.pop()
            e_else = self._block(st.orelse, e_body)
            ends = list(e_else)
            for h, hn in zip(st.handlers, hs):
                ends += self._block(h.body, [hn])
            if st.finalbody:
                ends = self._block(st.finalbody, ends)
            return ends
        # simple statements ------------------------------------------------------------
        n = self._new("stmt", st)
        self._of[id(st)] = n.id
        self._link(preds, n.id)
        cannot_raise = isinstance(st, (ast.Pass, ast.Continue, ast.Break)) or (
            isinstance(st, ast.Return) and (st.value is None or isinstance(st.value, (ast.Constant, ast.Name))))
        if not cannot_raise:
            self._exc_edges(n.id)
        if isinstance(st, ast.Return):
            self._edge(n.id, self.exit)
            return []
        if isinstance(st, ast.Raise):
            if self._handlers:
                pass  # edges to handlers already added
            else:
                self._edge(n.id, self.raise_exit)
            return []
        if isinstance(st, ast.Continue):
            if not self._loops:
                raise AnalysisError("continue outside loop")
            self._edge(n.id, self._loops[-1][0])
            return []
        if isinstance(st, ast.Break):
            if not self._loops:
                raise AnalysisError("break outside loop")
            self._edge(n.id, self._loops[-1][1])
            return []
        if isinstance(st, ast.Match):
            raise AnalysisError("match statement is outside the CFG builder's language")
        return [n.id]

    # -- queries --------------------------------------------------------------------------
    def node_of(self, node) -> int:
        """CFG node of the statement (or test / loop head) that evaluates `node`."""
        n = node
        while n is not None:
            if id(n) in self._of:
                k = self._of[id(n)]
                # an expression inside the *iterable or target* of a for maps to the head; an
                # expression inside an if-test maps to the test node (registered by id(test)).
                return k
            if isinstance(n, FuncNode) and n is not node and n is not self.func:
                # expression inside a nested def/lambda: attribute it to the statement holding it
                pass
            n = getattr(n, "_parent", None)
            if n is self.func:
                break
        raise AnalysisError("node is not part of this function's CFG")

    def reachable(self, removed=frozenset()) -> Set[int]:
        seen = {self.entry}
        st = [self.entry]
        while st:
            x = st.pop()
            for s in self.nodes[x].succ:
                if s not in seen and s not in removed:
                    seen.add(s)
                    st.append(s)
        return seen

    def dominators(self, removed=frozenset()) -> Dict[int, Set[int]]:
        """Dominator sets; `removed` = nodes deleted from the graph (branch pseudo nodes that an
        assumption makes infeasible)."""
        removed = frozenset(removed)
        if removed in self._domcache:
            return self._domcache[removed]
        reach = self.reachable(removed)
        order = self._rpo(reach, removed)
        full = set(reach)
        dom = {n: set(full) for n in reach}
        dom[self.entry] = {self.entry}
        changed = True
        while changed:
            changed = False
            for n in order:
                if n == self.entry:
                    continue
                ps = [p for p in self.nodes[n].pred if p in reach]
                new = set(full)
                for p in ps:
                    new &= dom[p]
                new.add(n)
                if new != dom[n]:
                    dom[n] = new
                    changed = True
        self._domcache[removed] = dom
        return dom

    def _rpo(self, reach, removed=frozenset()) -> List[int]:
        seen, out = set(), []

        def dfs(x):
            stack = [(x, iter(self.nodes[x].succ))]
            seen.add(x)
            while stack:
                n, it = stack[-1]
                adv = False
                for s in it:
                    if s not in seen and s in reach:
                        seen.add(s)
                        stack.append((s, iter(self.nodes[s].succ)))
                        adv = True
                        break
                if not adv:
                    out.append(n)
                    stack.pop()

        dfs(self.entry)
        return out[::-1]

    def dominates(self, a: int, b: int, removed=frozenset()) -> bool:
        d = self.dominators(removed)
        return b in d and a in d[b]

    def is_reachable(self, n: int, removed=frozenset()) -> bool:
        return n in self.dominators(removed)

    def guards(self, n: int, removed=frozenset()) -> List[Tuple[ast.AST, object]]:
        """Guard facts at node n: [(test expr | For node, polarity)] for every branch pseudo node that
        dominates n, outermost first."""
        d = self.dominators(removed)
        if n not in d:
            return []
        gs = [self.nodes[x] for x in d[n] if self.nodes[x].kind == "branch" and x != n]
        gs.sort(key=lambda x: len(d[x.id]))
        return [(g.ast, g.label) for g in gs]

    def branch_nodes(self, test) -> Tuple[int, int]:
        """(true/iter branch node, false/done branch node) of a test expression or For node."""
        t = self._of.get(id(test))
        if t is None:
            raise AnalysisError("test is not part of this CFG")
        a = b = None
        for s in self.nodes[t].succ:
            n = self.nodes[s]
            if n.kind == "branch" and n.ast is test:
                if n.label in (True, "iter"):
                    a = s
                elif n.label in (False, "done"):
                    b = s
        return a, b

    def prune(self, decide) -> frozenset:
        """Branch nodes made infeasible by an assumption: decide(test_expr) -> True / False / None."""
        rem = set()
        for n in self.nodes:
            if n.kind == "branch" and n.label in (True, False):
                v = decide(n.ast)
                if v is not None and bool(v) != n.label:
                    rem.add(n.id)
        return frozenset(rem)

    def body_exits(self, branch: int, removed=frozenset()) -> Set[str]:
        """How control can leave the region dominated by a branch node:
        subset of {'raise', 'return', 'fall'} ('fall' = reaches code not dominated by the branch,
        including loop back edges via continue/break)."""
        d = self.dominators(removed)
        region = {n for n in d if branch in d[n]}
        out = set()
        for n in region:
            for s in self.nodes[n].succ:
                if s in removed:
                    continue
                if s == self.exit:
                    out.add("return")
                elif s == self.raise_exit:
                    out.add("raise")
                elif s not in region:
                    if self.nodes[s].kind == "handler":
                        out.add("handler")
                    else:
                        out.add("fall")
        return out

    def path_exists(self, src: int, dst: int, avoid=frozenset(), start_after=True, removed=frozenset()) -> bool:
        """Is there a path src -> ... -> dst that does not pass through a node in `avoid`
        (end points themselves are not tested)?"""
        seen = set()
        st = list(self.nodes[src].succ) if start_after else [src]
        while st:
            x = st.pop()
            if x == dst:
                return True
            if x in seen or x in avoid or x in removed:
                continue
            seen.add(x)
            st.extend(self.nodes[x].succ)
        return False

    def stmts(self):
        for n in self.nodes:
            if n.kind in ("stmt", "test", "iter", "with"):
                yield n


_cache: Dict[int, CFG] = {}


def cfg_of(func) -> CFG:
    k = id(func)
    if k not in _cache:
        _cache[k] = CFG(func)
    return _cache[k]


def expr_guards(node, stop=None) -> List[Tuple[ast.AST, bool]]:
    """Expression-level guards of `node` inside its own statement: short-circuit operands,
    conditional expressions and comprehension `if` clauses between the node and its statement."""
    out = []
    ch = node
    p = getattr(node, "_parent", None)
    while p is not None and not isinstance(p, ast.stmt) and p is not stop:
        if isinstance(p, ast.IfExp):
            if ch is p.body:
                out.append((p.test, True))
            elif ch is p.orelse:
                out.append((p.test, False))
        elif isinstance(p, ast.BoolOp):
            i = next((k for k, v in enumerate(p.values) if v is ch), None)
            if i:
                for v in p.values[:i]:
                    out.append((v, isinstance(p.op, ast.And)))
        elif isinstance(p, (ast.ListComp, ast.SetComp, ast.GeneratorExp, ast.DictComp)):
            # ch is elt/key/value or a generator
            if not isinstance(ch, ast.comprehension):
                for g in p.generators:
                    for c in g.ifs:
                        out.append((c, True))
        elif isinstance(p, ast.comprehension):
            # inside iter or an `if` of a comprehension clause: earlier ifs of the same clause hold
            if ch in p.ifs:
                for c in p.ifs[: p.ifs.index(ch)]:
                    out.append((c, True))
        elif isinstance(p, FuncNode):
            break
        ch = p
        p = getattr(p, "_parent", None)
    return out[::-1]


def all_guards(func, node) -> List[Tuple[ast.AST, object]]:
    """CFG guard facts of the statement evaluating `node` plus expression-level guards."""
    c = cfg_of(func)
    n = c.node_of(node)
    return c.guards(n) + expr_guards(node)


def stmt_of(node):
    return enclosing_stmt(node)
